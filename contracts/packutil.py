"""Shared runner for function-contract packs."""
from pyvc import funpack
from pyvc.report import Pack


def run_contracts(pack, items):
    """items: list of (contract, witnesses or None, replay or None)"""
    for it in items:
        c, wit, rep = (list(it) + [None, None])[:3]
        funpack.verify(pack, c, witnesses=wit, replay=rep)


COMMON_ASSUME = [
    'heap model: distinct declared array paths are distinct objects (no hidden aliasing); rebinding an array attribute '
    'is a different object (checked by frame obligations)',
    'ZeroDivisionError of Python scalar division, MemoryError, KeyboardInterrupt and exceptions from logging are not '
    'modelled',
    'callee contracts used at call sites are those listed in the evidence functions table where the callee is itself '
    'under contract; other callees (listed in trusted_base) are assumed',
]


def native_guard(pack, name, fn):
    """Run a bounded native stand-in; an exception raised from inside the repository code is reported as a violation of
    that stand-in (with the traceback as replay), any other exception is a checker error."""
    import os
    import traceback
    try:
        return fn()
    except Exception as e:           # noqa
        tb = traceback.extract_tb(e.__traceback__)
        repo = os.environ.get('VERIF_REPO', '/repo')
        # raised from inside the repository code, or from a library function the repository code called
        in_repo = [f for f in tb if f.filename.startswith(repo + '/') or '/andes/' in f.filename]
        if in_repo:
            pack.violation(name, {'bounded': True, 'exception': repr(e), 'traceback': traceback.format_exc()[-1500:],
                                  'native_cmd': 'bounded native stand-in raised inside the repository code'})
            return None
        raise



class Stub:
    """stand-in receiver for native replays of methods called unbound (``Class.method(stub, ...)``): the attributes given are set;
    any other attribute reads as None -- the value a new field that a change introduces typically has after ``__init__``"""
    def __init__(self, _cls=None, **kw):
        self.__dict__['_cls'] = _cls
        self.__dict__.update(kw)

    def __getattr__(self, name):
        if name.startswith('__'):
            raise AttributeError(name)
        cls = self.__dict__.get('_cls')
        if cls is not None:
            import inspect
            try:
                raw = inspect.getattr_static(cls, name)
            except AttributeError:
                raw = None
            if inspect.isfunction(raw):                 # a helper method of the real class (also one a change adds): bound to the stub
                return lambda *a, **k: raw(self, *a, **k)
            if isinstance(raw, staticmethod):
                return raw.__func__
        return None
