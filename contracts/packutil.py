"""Shared runner for function-contract packs."""
from pyvc import funpack
from pyvc.report import Pack


def run_contracts(pack, items):
    """items: list of (contract, witnesses or None, replay or None)"""
    for it in items:
        c, wit, rep = (list(it) + [None, None])[:3]
        funpack.verify(pack, c, witnesses=wit, replay=rep)


COMMON_ASSUME = [
    'heap model: distinct declared array paths are distinct objects (no hidden aliasing); rebinding an array attribute '
    'is a different object (checked by frame obligations)',
    'ZeroDivisionError of Python scalar division, MemoryError, KeyboardInterrupt and exceptions from logging are not '
    'modelled',
    'callee contracts used at call sites are those listed in the evidence functions table where the callee is itself '
    'under contract; other callees (listed in trusted_base) are assumed',
]


def native_guard(pack, name, fn):
    """Run a bounded native stand-in; an exception raised from inside the repository code is reported as a violation of
    that stand-in (with the traceback as replay), any other exception is a checker error."""
    import os
    import traceback
    try:
        return fn()
    except Exception as e:           # noqa
        tb = traceback.extract_tb(e.__traceback__)
        repo = os.environ.get('VERIF_REPO', '/repo')
        # raised from inside the repository code, or from a library function the repository code called
        in_repo = [f for f in tb if f.filename.startswith(repo + '/') or '/andes/' in f.filename]
        if in_repo:
            pack.violation(name, {'bounded': True, 'exception': repr(e), 'traceback': traceback.format_exc()[-1500:],
                                  'native_cmd': 'bounded native stand-in raised inside the repository code'})
            return None
        raise



class Stub:
    """stand-in receiver for native replays of methods called unbound (``Class.method(stub, ...)``): the attributes given are set;
    any other attribute reads as None -- the value a new field that a change introduces typically has after ``__init__``"""
    def __init__(self, _cls=None, **kw):
        self.__dict__['_cls'] = _cls
        self.__dict__.update(kw)

    def __getattr__(self, name):
        if name.startswith('__'):
            raise AttributeError(name)
        cls = self.__dict__.get('_cls')
        if cls is not None:
            import inspect
            try:
                raw = inspect.getattr_static(cls, name)
            except AttributeError:
                raw = None
            if inspect.isfunction(raw):                 # a helper method of the real class (also one a change adds): bound to the stub
                return lambda *a, **k: raw(self, *a, **k)
            if isinstance(raw, staticmethod):
                return raw.__func__
        return None


def connectivity_premise(pack, pid):
    """"not islanded" is a premise of the power-balance properties: the island sets System.connectivity computes must be the
    components of the in-service branch graph (parallel circuits, self loops).  Bounded native stand-ins shared with C12; the
    all-buses-isolated IndexError is recorded under C12 (F24) and not repeated here."""
    from contracts import bounded_connectivity as BC
    from contracts import bounded_islands_real as BIR
    base = '%s/andes/system.py:System.connectivity/bounded:' % pid
    r = native_guard(pack, base + 'runs', lambda: BC.run(5, 4))
    if r is not None:
        n, found = r
        found = {k: w for k, w in found.items() if k != 'raises-or-hangs:all-buses-isolated'}
        pack.bounded.append({'function': 'System.connectivity', 'kind': 'bounded (exhaustive enumeration, real body on a stub system)',
                             'bound': '<=5 buses, <=4 branches incl. parallel and self-loops, all on/off patterns, 0-2 slacks',
                             'cases': n, 'kinds_of_mismatch': sorted(found), 'counted_as_proved': False})
        for kind, w in found.items():
            pack.violation(base + kind, {'bounded': True, 'inputs': w, 'native_cmd': 'contracts/bounded_connectivity.py: System.connectivity(stub)'})
    rname = base + 'islands-of-a-loaded-case-match-the-branch-graph'
    r = native_guard(pack, rname, BIR.run)
    if r is not None:
        nr, badr = r
        pack.bounded.append({'function': 'System.connectivity on a loaded case', 'kind': 'bounded native: ieee14_full + a double circuit, %d outage patterns' % nr,
                             'counted_as_proved': False})
        if badr:
            pack.violation(rname, {'bounded': True, 'inputs': badr, 'native_cmd': 'contracts/bounded_islands_real.py'})
