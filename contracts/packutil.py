"""Shared runner for function-contract packs."""
from pyvc import funpack
from pyvc.report import Pack


def run_contracts(pack, items):
    """items: list of (contract, witnesses or None, replay or None)"""
    for it in items:
        c, wit, rep = (list(it) + [None, None])[:3]
        funpack.verify(pack, c, witnesses=wit, replay=rep)


COMMON_ASSUME = [
    'heap model: distinct declared array paths are distinct objects (no hidden aliasing); rebinding an array attribute '
    'is a different object (checked by frame obligations)',
    'ZeroDivisionError of Python scalar division, MemoryError, KeyboardInterrupt and exceptions from logging are not '
    'modelled',
    'callee contracts used at call sites are those listed in the evidence functions table where the callee is itself '
    'under contract; other callees (listed in trusted_base) are assumed',
]
