"""Shared helpers for 'declared string == textbook spec' obligations (C01, C05, C07)."""
import ast

import z3

from pyvc import expr as X
from pyvc import numeval as N
from pyvc.smt import prove

_SS = {}


def system():
    """the real System of the working tree (constructors run; no code generation needed)"""
    if 'ss' not in _SS:
        import logging
        import andes
        logging.getLogger('andes').setLevel(logging.ERROR)
        _SS['ss'] = andes.System(no_undill=True, default_config=True)
    return _SS['ss']


def service_subs(model):
    """v_str of every service of the model, as AST substitutions (services are defined by their v_str: C02)"""
    out = {}
    for n, s in model.services.items():
        if isinstance(s.v_str, str):
            out[n] = X.parse(s.v_str)
    for n, s in model.services_subs.items():
        if isinstance(s.v_str, str):
            out[n] = X.parse(s.v_str)
    return out


def spec_equal(name, declared, spec, pre=(), subs=None, cplx=(), defs=None, meta=None, hyps_extra=None):
    """Obligation: under ``pre``, the declared string equals the textbook ``spec`` string for all values.
    ``defs``: ordered list of (name, expr string) local definitions used by the spec (substituted by AST)."""
    ctx = X.Ctx()
    ctx.cplx = set(cplx)
    allsubs = dict(subs or {})
    for k, v in (defs or []):
        allsubs[k] = X.parse(v)
    tr = X.Translator(ctx, subs=allsubs)
    ctx.collecting = True
    sv = tr.tr(X.parse(spec))
    ctx.collecting = False
    dv = tr.tr(X.parse(declared))
    hyps = [X.as_bool(tr.tr(X.parse(p))) for p in pre]
    goal = X.eq_goal(sv, dv)
    hy = hyps + list(ctx.domain) + ctx.instances() + list(hyps_extra or [])
    m = dict(meta or {})
    m.update({'declared': ' '.join(declared.split()), 'spec': spec, 'pre': list(pre)})
    r = prove(name, hy, goal, meta=m, keep_smt2=True)
    d = r.as_dict()
    can = prove(name + '/canary', hy, z3.BoolVal(False), want_model=False, use_cvc5=False, timeout_ms=3000)
    d['canary_ok'] = can.verdict != 'proved'
    return d


def native_spec_check(declared, spec, model, subs=None, defs=None, cplx=(), pre=(), tries=400, seed=0):
    """Replay a counter-model with plain floats; if the model point does not reproduce (uninterpreted-function
    artefact), sample random points satisfying ``pre``."""
    import random
    first = _native_once(declared, spec, model, subs, defs, cplx)
    if first.get('confirmed') or 'error' in first:
        return first
    rnd = random.Random(seed)
    names = first.get('names', [])
    allsubs = dict(subs or {})
    for k, v in (defs or []):
        allsubs[k] = X.parse(v)
    for _ in range(tries):
        mdl = {n: rnd.choice([rnd.uniform(-2, 2), rnd.uniform(0.1, 1.5), float(rnd.randint(0, 1))]) for n in names}
        try:
            if not all(bool(N.ev(X.parse(p), dict(mdl), allsubs)) for p in pre):
                continue
        except Exception:
            continue
        r = _native_once(declared, spec, mdl, subs, defs, cplx)
        if r.get('confirmed'):
            r['found_by'] = 'random sampling under the precondition'
            return r
    first['sampled'] = tries
    return first


def _native_once(declared, spec, model, subs=None, defs=None, cplx=()):
    from fractions import Fraction
    allsubs = dict(subs or {})
    for k, v in (defs or []):
        allsubs[k] = X.parse(v)
    env = {}
    for k, v in (model or {}).items():
        try:
            env[k] = float(Fraction(v)) if isinstance(v, str) else float(v)
        except Exception:
            pass
    for c in cplx:
        if c + '__re' in env or c + '__im' in env:
            env[c] = complex(env.get(c + '__re', 0.0), env.get(c + '__im', 0.0))
    names = set()

    def collect(t, depth=0):
        for n in ast.walk(t):
            if isinstance(n, ast.Name):
                if n.id in allsubs and depth < 10:
                    collect(allsubs[n.id], depth + 1)
                else:
                    names.add(n.id)
    collect(X.parse(declared))
    collect(X.parse(spec))
    for nm in names:
        if nm not in ('pi', 'nan', 'I'):
            env.setdefault(nm, 0.0)
    try:
        a = N.ev(X.parse(declared), env, allsubs)
        b = N.ev(X.parse(spec), env, allsubs)
    except Exception as e:
        return {'confirmed': False, 'error': repr(e)}
    return {'confirmed': not N.close(complex(a), complex(b), rtol=1e-9, atol=1e-12), 'declared_value': repr(a),
            'spec_value': repr(b), 'inputs': {k: repr(v) for k, v in env.items()}, 'names': sorted(names - {'pi', 'nan', 'I'})}


def settle_spec(pack, r, declared, spec, subs=None, defs=None, cplx=(), pre=()):
    if not r.get('canary_ok', True):
        pack.vacuity['failed'].append(r['name'] + ': hypotheses contradictory')
    pack.vacuity['canaries'] += 1
    if r['verdict'] == 'proved':
        pack.add(r)
        return
    known = pack.known_for(r['name'])
    if r['verdict'] == 'refuted':
        nat = native_spec_check(declared, spec, r.get('model'), subs, defs, cplx, pre)
        nat.pop('names', None)
        if known:
            r = dict(r)
            r.setdefault('meta', {})['known_finding'] = True
            pack.add(r)
            for k in known:
                pack.known_finding(k)
            return
        pack.add(r)
        payload = {'solver': r['backend'], 'model': r.get('model'), 'declared': declared, 'spec': spec, 'native': nat,
                   'native_cmd': 'evaluate the declared equation string of the live model object and the textbook spec '
                                 'at the listed inputs'}
        if nat.get('confirmed'):
            pack.violation(r['name'], payload)
        elif 'error' in nat:
            pack.violation(r['name'], payload, no_input=True)
        else:
            # the solver's model does not reproduce natively and neither do random points: artefact of an
            # uninterpreted function -> undecided, never a violation
            pack.undecided_obl(r['name'], 'refuted by %s but native evaluation agrees at the model and at %s random points'
                               % (r['backend'], nat.get('sampled')))
        return
    pack.add(r)
    pack.undecided_obl(r['name'], r.get('note', ''))


def status_independence(pack, pid, ss, model_name, file, replay=None):
    """Structural obligations on the live model object: no constant service that a residual equation of the model reads (directly or
    through other constant services) depends on the connection status ``u`` -- events change ``u`` at run time, constants are
    evaluated once, so such a service would keep the status the device was initialised with.  One obligation per service read."""
    import re
    from andes.core.service import ConstService
    from pyvc.exprvc import _structural
    model = ss.__dict__[model_name]

    def tok(s):
        return set(re.findall(r'[A-Za-z_][A-Za-z_0-9]*', s or ''))
    svc = {k: v for k, v in model.services.items() if isinstance(v, ConstService) and v.v_str}
    deps = {k: tok(v.v_str) for k, v in svc.items()}

    def closure(name, seen=None):
        seen = seen or set()
        out = set()
        for d in deps.get(name, ()):
            out.add(d)
            if d in svc and d not in seen:
                out |= closure(d, seen | {name})
        return out
    read = set()
    for var in model.cache.all_vars.values():
        read |= tok(var.e_str) & set(svc)
    n = 0
    for name in sorted(read):
        n += 1
        ok = 'u' not in closure(name)
        oname = '%s/%s:%s.%s.v_str/structural:constant-read-by-a-residual-does-not-depend-on-the-connection-status-u' % (pid, file, model_name, name)
        r = _structural(oname, ok, 'v_str = %r (transitively reads %s)' % (svc[name].v_str, sorted(closure(name) - set(svc))[:8]))
        pack.add(r)
        if not ok:
            conf = replay() if replay is not None else None
            payload = {'solver': 'structural', 'service': name, 'v_str': svc[name].v_str, 'function': '%s.__init__' % model_name, 'file': file}
            if conf:
                payload['native'] = conf
            if conf and conf.get('confirmed'):
                pack.violation(oname, payload)
            else:
                pack.violation(oname, payload, no_input=True)
    pack.add_function('%s.__init__ (constant services read by residuals: %s)' % (model_name, ', '.join(sorted(read))), file, obligations=n)
    return n


def replay_line_closing():
    """native: a line that is out of service at the start and closed by a Toggle at 0.5 s carries, right after the event, the power the
    pi-model gives for the bus voltages of that instant (kundur_full, no other event)"""
    import contextlib
    import io
    import logging
    import numpy as np
    import andes
    logging.getLogger('andes').setLevel(logging.CRITICAL)
    with contextlib.redirect_stdout(io.StringIO()), contextlib.redirect_stderr(io.StringIO()):
        ss = andes.load(andes.get_case('kundur/kundur_full.xlsx'), default_config=True, no_output=True, setup=False)
        for tg in list(ss.Toggle.idx.v):
            ss.Toggle.alter('u', tg, 0)
        dev = ss.Line.idx.v[8]
        ss.Line.alter('u', dev, 0)
        ss.add('Toggle', dict(model='Line', dev=dev, t=0.5))
        ss.setup()
        ss.PFlow.run()
        ss.TDS.config.tf = 0.6
        ok = ss.TDS.run()
    k = ss.Line.idx2uid(dev)
    L = ss.Line
    if not ok or L.u.v[k] != 1:
        return {'confirmed': True, 'inputs': {'case': 'kundur_full', 'line': dev, 'sequence': 'u = 0 at the start, Toggle at 0.5 s, run to 0.6 s'},
                'observed': 'run failed or the line is still out of service (u = %r)' % float(L.u.v[k]), 'native_cmd': 'contracts/specutil.py replay_line_closing'}
    v1, v2, a1, a2 = [float(x.v[k]) for x in (L.v1, L.v2, L.a1, L.a2)]
    y = 1.0 / complex(L.r.v[k] + 1e-8, L.x.v[k] + 1e-8)
    tap, phi = float(L.tap.v[k]), float(L.phi.v[k])
    gh = float(L.g1.v[k] + 0.5 * L.g.v[k])
    want = v1 ** 2 * (gh + y.real) / tap ** 2 - v1 * v2 * (y.real * np.cos(a1 - a2 - phi) + y.imag * np.sin(a1 - a2 - phi)) / tap
    got = float(L.a1.e[k])
    if abs(got - want) > 1e-6 * max(1.0, abs(want)):
        return {'confirmed': True, 'inputs': {'case': 'kundur_full', 'line': dev, 'sequence': 'u = 0 at the start, Toggle at 0.5 s, run to 0.6 s'},
                'observed': 'active power the model injects at the from-bus of the closed line: %.6f, pi-model with the line data at the same voltages: %.6f' % (got, want),
                'native_cmd': 'contracts/specutil.py replay_line_closing'}
    return {'confirmed': False, 'tried': 1}


def generator_shares(pack, pid, ss):
    """Hand-over of a static generator to the dynamic devices that replace it (C05: "the dynamic devices together inject what the power
    flow found"): every model that declares the split factors gammap / gammaq takes the generator's active power times gammap and its
    reactive power times gammaq -- each declared string against that statement -- and reads the two powers from the fields ``p`` and
    ``q`` of the static generator named by its ``gen`` field (structural obligation on the ExtService declarations)."""
    import inspect
    import os
    import re
    repo = os.environ.get('VERIF_REPO', '/repo')
    n = 0
    per_file = {}
    for mname, m in ss.models.items():
        if not (hasattr(m, 'gammap') and hasattr(m, 'gammaq')):
            continue
        file = os.path.relpath(inspect.getsourcefile(type(m)), repo)
        n0 = n
        for power, gamma, src in (('p0s', 'gammap', 'p'), ('q0s', 'gammaq', 'q')):
            users = [(sn, s.v_str) for sn, s in m.services.items()
                     if isinstance(getattr(s, 'v_str', None), str) and re.search(r'\b%s\b' % power, s.v_str)
                     and not re.search(r'\b(?!%s\b|%s\b|gammap\b|gammaq\b|p0s\b|q0s\b)[A-Za-z_]\w*' % (power, gamma), s.v_str)]
            base = '%s/%s:%s.share-of-%s' % (pid, file, mname, power)
            ext = m.services_ext.get(power)
            ok = (ext is not None and type(ext).__name__ == 'ExtService' and ext.src == src and ext.model == 'StaticGen'
                  and getattr(ext.indexer, 'name', None) == 'gen' and len(users) >= 1)
            nm = base + '/post[%s is field %s of the static generator named by gen; one share service derives from it]' % (power, src)
            pack.add({'name': nm, 'verdict': 'proved' if ok else 'refuted', 'backend': 'structural', 'time_s': 0.0, 'model': None, 'smt2': None,
                      'meta': {'src': getattr(ext, 'src', None), 'model': getattr(ext, 'model', None), 'users': users}, 'note': ''})
            n += 1
            if not ok:
                pack.violation(nm, {'observed': {'src': getattr(ext, 'src', None), 'model': getattr(ext, 'model', None), 'share services': users}}, no_input=True)
            for sn, declared in users:
                spec = '%s * %s' % (power, gamma)
                name = base + '.%s.v_str/post[%s = %s]' % (sn, sn, spec)
                r = spec_equal(name, declared, spec, meta={'model': mname, 'service': sn})
                settle_spec(pack, r, declared, spec)
                n += 1
        per_file[file] = per_file.get(file, 0) + n - n0
    for f, k in sorted(per_file.items()):
        pack.add_function('share services (p0 / q0 / Pref / Qref / pref0 / qref0) of the models declaring gammap, gammaq', f, obligations=k)
    return n
