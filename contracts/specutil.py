"""Shared helpers for 'declared string == textbook spec' obligations (C01, C05, C07)."""
import ast

import z3

from pyvc import expr as X
from pyvc import numeval as N
from pyvc.smt import prove

_SS = {}


def system():
    """the real System of the working tree (constructors run; no code generation needed)"""
    if 'ss' not in _SS:
        import logging
        import andes
        logging.getLogger('andes').setLevel(logging.ERROR)
        _SS['ss'] = andes.System(no_undill=True, default_config=True)
    return _SS['ss']


def service_subs(model):
    """v_str of every service of the model, as AST substitutions (services are defined by their v_str: C02)"""
    out = {}
    for n, s in model.services.items():
        if isinstance(s.v_str, str):
            out[n] = X.parse(s.v_str)
    for n, s in model.services_subs.items():
        if isinstance(s.v_str, str):
            out[n] = X.parse(s.v_str)
    return out


def spec_equal(name, declared, spec, pre=(), subs=None, cplx=(), defs=None, meta=None, hyps_extra=None):
    """Obligation: under ``pre``, the declared string equals the textbook ``spec`` string for all values.
    ``defs``: ordered list of (name, expr string) local definitions used by the spec (substituted by AST)."""
    ctx = X.Ctx()
    ctx.cplx = set(cplx)
    allsubs = dict(subs or {})
    for k, v in (defs or []):
        allsubs[k] = X.parse(v)
    tr = X.Translator(ctx, subs=allsubs)
    ctx.collecting = True
    sv = tr.tr(X.parse(spec))
    ctx.collecting = False
    dv = tr.tr(X.parse(declared))
    hyps = [X.as_bool(tr.tr(X.parse(p))) for p in pre]
    goal = X.eq_goal(sv, dv)
    hy = hyps + list(ctx.domain) + ctx.instances() + list(hyps_extra or [])
    m = dict(meta or {})
    m.update({'declared': ' '.join(declared.split()), 'spec': spec, 'pre': list(pre)})
    r = prove(name, hy, goal, meta=m, keep_smt2=True)
    d = r.as_dict()
    can = prove(name + '/canary', hy, z3.BoolVal(False), want_model=False, use_cvc5=False, timeout_ms=3000)
    d['canary_ok'] = can.verdict != 'proved'
    return d


def native_spec_check(declared, spec, model, subs=None, defs=None, cplx=(), pre=(), tries=400, seed=0):
    """Replay a counter-model with plain floats; if the model point does not reproduce (uninterpreted-function
    artefact), sample random points satisfying ``pre``."""
    import random
    first = _native_once(declared, spec, model, subs, defs, cplx)
    if first.get('confirmed') or 'error' in first:
        return first
    rnd = random.Random(seed)
    names = first.get('names', [])
    allsubs = dict(subs or {})
    for k, v in (defs or []):
        allsubs[k] = X.parse(v)
    for _ in range(tries):
        mdl = {n: rnd.choice([rnd.uniform(-2, 2), rnd.uniform(0.1, 1.5), float(rnd.randint(0, 1))]) for n in names}
        try:
            if not all(bool(N.ev(X.parse(p), dict(mdl), allsubs)) for p in pre):
                continue
        except Exception:
            continue
        r = _native_once(declared, spec, mdl, subs, defs, cplx)
        if r.get('confirmed'):
            r['found_by'] = 'random sampling under the precondition'
            return r
    first['sampled'] = tries
    return first


def _native_once(declared, spec, model, subs=None, defs=None, cplx=()):
    from fractions import Fraction
    allsubs = dict(subs or {})
    for k, v in (defs or []):
        allsubs[k] = X.parse(v)
    env = {}
    for k, v in (model or {}).items():
        try:
            env[k] = float(Fraction(v)) if isinstance(v, str) else float(v)
        except Exception:
            pass
    for c in cplx:
        if c + '__re' in env or c + '__im' in env:
            env[c] = complex(env.get(c + '__re', 0.0), env.get(c + '__im', 0.0))
    names = set()

    def collect(t, depth=0):
        for n in ast.walk(t):
            if isinstance(n, ast.Name):
                if n.id in allsubs and depth < 10:
                    collect(allsubs[n.id], depth + 1)
                else:
                    names.add(n.id)
    collect(X.parse(declared))
    collect(X.parse(spec))
    for nm in names:
        if nm not in ('pi', 'nan', 'I'):
            env.setdefault(nm, 0.0)
    try:
        a = N.ev(X.parse(declared), env, allsubs)
        b = N.ev(X.parse(spec), env, allsubs)
    except Exception as e:
        return {'confirmed': False, 'error': repr(e)}
    return {'confirmed': not N.close(complex(a), complex(b), rtol=1e-9, atol=1e-12), 'declared_value': repr(a),
            'spec_value': repr(b), 'inputs': {k: repr(v) for k, v in env.items()}, 'names': sorted(names - {'pi', 'nan', 'I'})}


def settle_spec(pack, r, declared, spec, subs=None, defs=None, cplx=(), pre=()):
    if not r.get('canary_ok', True):
        pack.vacuity['failed'].append(r['name'] + ': hypotheses contradictory')
    pack.vacuity['canaries'] += 1
    if r['verdict'] == 'proved':
        pack.add(r)
        return
    known = pack.known_for(r['name'])
    if r['verdict'] == 'refuted':
        nat = native_spec_check(declared, spec, r.get('model'), subs, defs, cplx, pre)
        nat.pop('names', None)
        if known:
            r = dict(r)
            r.setdefault('meta', {})['known_finding'] = True
            pack.add(r)
            for k in known:
                pack.known_finding(k)
            return
        pack.add(r)
        payload = {'solver': r['backend'], 'model': r.get('model'), 'declared': declared, 'spec': spec, 'native': nat,
                   'native_cmd': 'evaluate the declared equation string of the live model object and the textbook spec '
                                 'at the listed inputs'}
        if nat.get('confirmed'):
            pack.violation(r['name'], payload)
        elif 'error' in nat:
            pack.violation(r['name'], payload, no_input=True)
        else:
            # the solver's model does not reproduce natively and neither do random points: artefact of an
            # uninterpreted function -> undecided, never a violation
            pack.undecided_obl(r['name'], 'refuted by %s but native evaluation agrees at the model and at %s random points'
                               % (r['backend'], nat.get('sampled')))
        return
    pack.add(r)
    pack.undecided_obl(r['name'], r.get('note', ''))
