"""
pyvc.expr -- translation of straight-line expressions (Python ``ast``) into z3 real terms.

One translator serves both sides of an expression obligation:

* the *code* side: the single ``return`` expression of a function in a generated ``pycode/<Model>.py``
  (NumPy dialect: ``select``, ``less_equal``, ``logical_and.reduce``, ``real``/``imag``/``angle`` ...);
* the *spec* side: an equation string declared on a model object (SymPy dialect: ``Piecewise``,
  ``Indicator``, ``Le``, ``re``/``im``/``arg`` ...), or a textbook formula written in a sidecar.

Semantics assumed (stated in every evidence file):
  - ``float`` is the field of reals, ``complex`` a pair of reals; literals are exact rationals of the
    decimal text; booleans are {0,1} when used arithmetically;
  - sin cos tan exp log atan atan2 asin acos sqrt pow are uninterpreted functions; only congruence and the
    ground instances produced by :func:`Ctx.instances` are used;
  - division is SMT-LIB total division; the spec side's denominators / sqrt / log arguments are collected
    as *domain conditions* and assumed, i.e. equalities are proved on the domain of the declared equation.

Every value is a forward-mode dual: ``R(v, d)`` carries the value and its derivative w.r.t. the seed
variable chosen in ``Ctx.seed`` (``d`` is 0 when no seed is set).  The differentiator is therefore ours
(sum/product/quotient/chain rules below) and shares no code with SymPy.
"""
import ast
from fractions import Fraction

import z3

# ------------------------------------------------------------------ scalar terms: Fraction | z3.ArithRef


def _isc(a):
    return isinstance(a, Fraction)


def tz(a):
    """scalar term -> z3"""
    if _isc(a):
        return z3.RealVal(str(a))
    return a


def s_add(a, b):
    if _isc(a) and _isc(b):
        return a + b
    if _isc(a) and a == 0:
        return b
    if _isc(b) and b == 0:
        return a
    return tz(a) + tz(b)


def s_neg(a):
    if _isc(a):
        return -a
    return -a


def s_sub(a, b):
    if _isc(a) and _isc(b):
        return a - b
    if _isc(b) and b == 0:
        return a
    if _isc(a) and a == 0:
        return s_neg(b)
    return tz(a) - tz(b)


def s_mul(a, b):
    if _isc(a) and _isc(b):
        return a * b
    for x, y in ((a, b), (b, a)):
        if _isc(x):
            if x == 0:
                return Fraction(0)
            if x == 1:
                return y
            if x == -1:
                return s_neg(y)
    return tz(a) * tz(b)


def s_div(a, b):
    if _isc(a) and _isc(b) and b != 0:
        return a / b
    if _isc(a) and a == 0:
        return Fraction(0)
    if _isc(b) and b == 1:
        return a
    if _isc(b) and b != 0:
        return s_mul(a, 1 / b)
    return tz(a) / tz(b)


def s_ite(c, a, b):
    if z3.is_true(c):
        return a
    if z3.is_false(c):
        return b
    if _isc(a) and _isc(b) and a == b:
        return a
    return z3.If(c, tz(a), tz(b))


def s_ipow(a, n):
    """a**n for python int n >= 0"""
    if n == 0:
        return Fraction(1)
    r = a
    for _ in range(n - 1):
        r = s_mul(r, a)
    return r


def lin_form(t):
    """z3 arithmetic term -> ({key: (coef, atom)}, const) if it is a linear combination of atoms, else None"""
    terms = {}
    const = [Fraction(0)]

    def num(x):
        if z3.is_rational_value(x) or z3.is_int_value(x):
            return Fraction(x.as_fraction()) if z3.is_rational_value(x) else Fraction(x.as_long())
        return None

    def go(x, c):
        v = num(x)
        if v is not None:
            const[0] += c * v
            return True
        k = x.decl().kind()
        if k == z3.Z3_OP_ADD:
            return all(go(ch, c) for ch in x.children())
        if k == z3.Z3_OP_SUB:
            ch = x.children()
            return go(ch[0], c) and all(go(y, -c) for y in ch[1:])
        if k == z3.Z3_OP_UMINUS:
            return go(x.children()[0], -c)
        if k == z3.Z3_OP_MUL:
            ch = x.children()
            coef = Fraction(1)
            rest = []
            for y in ch:
                v = num(y)
                if v is not None:
                    coef *= v
                else:
                    rest.append(y)
            if len(rest) == 1:
                return go(rest[0], c * coef)
            if not rest:
                const[0] += c * coef
                return True
            # product of atoms: treat the product as one atom (sorted for commutativity)
            rest = sorted(rest, key=lambda y: y.sexpr())
            atom = rest[0]
            for y in rest[1:]:
                atom = atom * y
            add(atom, c * coef)
            return True
        if k == z3.Z3_OP_DIV:
            a, b = x.children()
            v = num(b)
            if v is not None and v != 0:
                return go(a, c / v)
        add(x, c)
        return True

    def add(atom, c):
        key = atom.sexpr()
        if key in terms:
            terms[key] = (terms[key][0] + c, atom)
        else:
            terms[key] = (c, atom)

    if not go(t, Fraction(1)):
        return None
    terms = {k: v for k, v in terms.items() if v[0] != 0}
    return terms, const[0]


# ------------------------------------------------------------------ values


class R:
    __slots__ = ('v', 'd')

    def __init__(self, v, d=Fraction(0)):
        self.v, self.d = v, d


class C:
    __slots__ = ('re', 'im')

    def __init__(self, re, im):
        self.re, self.im = re, im


class B:
    __slots__ = ('b',)

    def __init__(self, b):
        self.b = b


class Tup:
    __slots__ = ('items',)

    def __init__(self, items):
        self.items = items


class Unsupported(Exception):
    pass


def as_num(x):
    """B -> R over {0,1}"""
    if isinstance(x, B):
        if z3.is_true(x.b):
            return R(Fraction(1))
        if z3.is_false(x.b):
            return R(Fraction(0))
        return R(z3.If(x.b, z3.RealVal(1), z3.RealVal(0)))
    if isinstance(x, (R, C)):
        return x
    raise Unsupported('numeric value expected, got %r' % (x,))


def as_bool(x):
    if isinstance(x, B):
        return x.b
    if isinstance(x, R):
        if _isc(x.v):
            return z3.BoolVal(x.v != 0)
        return tz(x.v) != 0
    raise Unsupported('boolean expected')


def as_c(x):
    x = as_num(x)
    if isinstance(x, C):
        return x
    return C(x, R(Fraction(0)))


def r_add(a, b):
    return R(s_add(a.v, b.v), s_add(a.d, b.d))


def r_sub(a, b):
    return R(s_sub(a.v, b.v), s_sub(a.d, b.d))


def r_neg(a):
    return R(s_neg(a.v), s_neg(a.d))


def r_mul(a, b):
    return R(s_mul(a.v, b.v), s_add(s_mul(a.d, b.v), s_mul(a.v, b.d)))


def r_div(a, b):
    # (a/b)' = a'/b - a b'/b^2
    v = s_div(a.v, b.v)
    if _isc(b.d) and b.d == 0:
        d = s_div(a.d, b.v)
    else:
        d = s_sub(s_div(a.d, b.v), s_div(s_mul(a.v, b.d), s_mul(b.v, b.v)))
    return R(v, d)


def r_ite(c, a, b):
    return R(s_ite(c, a.v, b.v), s_ite(c, a.d, b.d))


class Ctx:
    """Per-obligation translation context shared by both sides."""

    TRIG = ('sin', 'cos')

    def __init__(self):
        self.syms = {}        # name -> z3 Real const
        self.cplx = set()     # names of complex-valued symbols
        self.seed = None      # name of the differentiation variable (or None)
        self.domain = []      # domain conditions collected while ``collecting`` is True
        self.collecting = False
        self.deriv_domain = False   # also collect conditions needed by derivatives (sqrt arg > 0, abs arg != 0)
        self.uf = {}
        self.apps = {}        # uf name -> list of argument tuples (z3 terms)
        self.guards = []      # path conditions of enclosing Piecewise/select arms
        self.side_goals = []  # extra facts that must be proved with the main goal (e.g. Im == 0 under sqrt)
        self.nan = z3.Real('__nan__')
        self.pi = z3.Real('__pi__')

    # -- symbols
    def sym(self, name):
        if name not in self.syms:
            self.syms[name] = z3.Real(name)
        return self.syms[name]

    def var(self, name):
        if name in self.cplx:
            return C(R(self.sym(name + '__re')), R(self.sym(name + '__im')))
        d = Fraction(1) if (self.seed is not None and name == self.seed) else Fraction(0)
        return R(self.sym(name), d)

    # -- uninterpreted functions
    def app(self, fname, *args):
        n = len(args)
        if fname not in self.uf:
            self.uf[fname] = z3.Function(fname, *([z3.RealSort()] * (n + 1)))
        zargs = tuple(tz(a) for a in args)
        lst = self.apps.setdefault(fname, [])
        if not any(all(x.eq(y) for x, y in zip(zargs, old)) for old in lst):
            lst.append(zargs)
        return self.uf[fname](*zargs)

    def need(self, cond):
        if self.collecting:
            self.domain.append(self.guarded(cond))

    def guarded(self, cond):
        gs = [g for g in self.guards if not z3.is_true(g)]
        return z3.Implies(z3.And(*gs), cond) if gs else cond

    # -- elementary functions on duals
    def f_sqrt(self, a):
        if _isc(a.v) and a.v >= 0:
            from math import isqrt
            n, dn = a.v.numerator, a.v.denominator
            if isqrt(n) ** 2 == n and isqrt(dn) ** 2 == dn:
                return R(Fraction(isqrt(n), isqrt(dn)))
        self.need(tz(a.v) >= 0)
        s = self.app('sqrt', a.v)
        if _isc(a.d) and a.d == 0:
            return R(s)
        if self.collecting and self.deriv_domain:
            self.domain.append(self.guarded(tz(a.v) > 0))
        return R(s, s_div(a.d, s_mul(Fraction(2), s)))

    def canon(self, a):
        """canonical sign/ordering of a (linear) trig argument: returns (dual, flipped)"""
        if _isc(a.v):
            return (r_neg(a), True) if a.v < 0 else (a, False)
        lf = lin_form(a.v)
        if lf is None:
            return a, False
        terms, const = lf
        keys = sorted(terms)
        if not keys:
            return a, False
        flip = terms[keys[0]][0] < 0
        sgn = -1 if flip else 1
        v = None
        for k in keys:
            c, atom = terms[k]
            t = s_mul(Fraction(sgn) * c, atom)
            v = t if v is None else s_add(v, t)
        if const != 0:
            v = s_add(v, Fraction(sgn) * const)
        return R(v, s_neg(a.d) if flip else a.d), flip

    def f_unary(self, name, a):
        if name in ('sin', 'cos', 'tan'):
            a, flip = self.canon(a)
            if flip and name != 'cos':
                return r_neg(self._f_unary(name, a))
        return self._f_unary(name, a)

    def _f_unary(self, name, a):
        if name == 'sin':
            return R(self.app('sin', a.v), s_mul(self.app('cos', a.v), a.d) if not self._z(a.d) else Fraction(0))
        if name == 'cos':
            return R(self.app('cos', a.v), s_neg(s_mul(self.app('sin', a.v), a.d)) if not self._z(a.d) else Fraction(0))
        if name == 'tan':
            t = self.app('tan', a.v)
            return R(t, s_mul(s_add(Fraction(1), s_mul(t, t)), a.d) if not self._z(a.d) else Fraction(0))
        if name == 'exp':
            if _isc(a.v) and a.v == 0:
                return R(Fraction(1))
            e = self.app('exp', a.v)
            return R(e, s_mul(e, a.d) if not self._z(a.d) else Fraction(0))
        if name == 'log':
            self.need(tz(a.v) > 0)
            return R(self.app('log', a.v), s_div(a.d, a.v) if not self._z(a.d) else Fraction(0))
        if name == 'atan':
            return R(self.app('atan', a.v),
                     s_div(a.d, s_add(Fraction(1), s_mul(a.v, a.v))) if not self._z(a.d) else Fraction(0))
        if name in ('asin', 'acos'):
            u = self.app(name, a.v)
            if self._z(a.d):
                return R(u)
            root = self.f_sqrt(R(s_sub(Fraction(1), s_mul(a.v, a.v)))).v
            d = s_div(a.d, root)
            return R(u, d if name == 'asin' else s_neg(d))
        raise Unsupported(name)

    @staticmethod
    def _z(d):
        return _isc(d) and d == 0

    def f_atan2(self, y, x):
        u = self.app('atan2', y.v, x.v)
        if self._z(y.d) and self._z(x.d):
            return R(u)
        den = s_add(s_mul(x.v, x.v), s_mul(y.v, y.v))
        if self.collecting and self.deriv_domain:
            self.domain.append(self.guarded(tz(den) != 0))
        return R(u, s_div(s_sub(s_mul(x.v, y.d), s_mul(y.v, x.d)), den))

    def f_abs(self, a):
        if _isc(a.v):
            return R(abs(a.v))
        c = tz(a.v) >= 0
        if not self._z(a.d) and self.collecting and self.deriv_domain:
            self.domain.append(self.guarded(tz(a.v) != 0))
        return R(z3.If(c, tz(a.v), -tz(a.v)), s_ite(c, a.d, s_neg(a.d)))

    def f_sign(self, a):
        if _isc(a.v):
            return R(Fraction((a.v > 0) - (a.v < 0)))
        return R(z3.If(tz(a.v) > 0, z3.RealVal(1), z3.If(tz(a.v) < 0, z3.RealVal(-1), z3.RealVal(0))))

    def f_pow(self, a, b):
        """real a ** real b"""
        if _isc(b.v) and self._z(b.d):
            e = b.v
            if e.denominator == 1:
                n = int(e)
                if n >= 0:
                    v = s_ipow(a.v, n)
                    d = s_mul(s_mul(Fraction(n), s_ipow(a.v, n - 1)), a.d) if n >= 1 and not self._z(a.d) else Fraction(0)
                    return R(v, d)
                inv = self.f_pow(a, R(Fraction(-n)))
                self.need(tz(a.v) != 0)
                return r_div(R(Fraction(1)), inv)
            if e.denominator == 2:
                # a**(k/2) = a**floor(k/2) * sqrt(a)   (k odd)
                k = e.numerator
                fl = (k - 1) // 2
                root = self.f_sqrt(a)
                if fl >= 0:
                    return r_mul(self.f_pow(a, R(Fraction(fl))), root)
                self.need(tz(a.v) != 0)
                return r_div(root, self.f_pow(a, R(Fraction(-fl))))
            # generic constant exponent: pow(a, e), derivative e*pow(a, e-1)*a'
            u = self.app('pow', a.v, e)
            if self._z(a.d):
                return R(u)
            return R(u, s_mul(s_mul(e, self.app('pow', a.v, e - 1)), a.d))
        # symbolic exponent: exp(b*log(a)) is what SymPy differentiates; keep pow as UF
        u = self.app('pow', a.v, b.v)
        self.need(tz(a.v) > 0)
        if self._z(a.d) and self._z(b.d):
            return R(u)
        d = s_add(s_mul(s_mul(b.v, self.app('pow', a.v, s_sub(b.v, Fraction(1)))), a.d),
                  s_mul(s_mul(self.app('log', a.v), u), b.d))
        return R(u, d)

    # -- complex arithmetic on pairs of duals
    def c_mul(self, a, b):
        return C(r_sub(r_mul(a.re, b.re), r_mul(a.im, b.im)), r_add(r_mul(a.re, b.im), r_mul(a.im, b.re)))

    def c_div(self, a, b):
        if self._z(b.im.v) and self._z(b.im.d):
            return C(r_div(a.re, b.re), r_div(a.im, b.re))
        den = r_add(r_mul(b.re, b.re), r_mul(b.im, b.im))
        num = self.c_mul(a, C(b.re, r_neg(b.im)))
        return C(r_div(num.re, den), r_div(num.im, den))

    def c_abs(self, a):
        return self.f_sqrt(r_add(r_mul(a.re, a.re), r_mul(a.im, a.im)))

    def c_exp(self, a):
        e = self.f_unary('exp', a.re)
        return C(r_mul(e, self.f_unary('cos', a.im)), r_mul(e, self.f_unary('sin', a.im)))

    # -- ground identity instances (all are true statements about the real functions)
    def instances(self):
        out = []
        for (t,) in self.apps.get('sqrt', []):
            s = self.uf['sqrt'](t)
            out.append(z3.Implies(t >= 0, z3.And(s >= 0, s * s == t)))
            out.append(z3.Implies(t > 0, s > 0))
        sq = self.apps.get('sqrt', [])
        for i in range(len(sq)):
            for j in range(i + 1, len(sq)):
                a, b = sq[i][0], sq[j][0]
                out.append(z3.Implies(a == b, self.uf['sqrt'](a) == self.uf['sqrt'](b)))
        sins = [a[0] for a in self.apps.get('sin', [])]
        coss = [a[0] for a in self.apps.get('cos', [])]
        for f, lst, sgn in (('sin', sins, -1), ('cos', coss, 1)):
            for i in range(len(lst)):
                for j in range(i + 1, len(lst)):
                    a, b = lst[i], lst[j]
                    fa, fb = self.uf[f](a), self.uf[f](b)
                    out.append(z3.Implies(a == -b, fa == (fb if sgn == 1 else -fb)))
        pi = self.pi
        for f, lst in (('sin', sins), ('cos', coss)):
            for i in range(len(lst)):
                for j in range(i + 1, len(lst)):
                    a, b = lst[i], lst[j]
                    out.append(z3.Implies(z3.Or(a - b == pi, b - a == pi), self.uf[f](a) == -self.uf[f](b)))
                    out.append(z3.Implies(z3.Or(a + b == pi, a + b == -pi),
                                          self.uf[f](a) == (self.uf[f](b) if f == 'sin' else -self.uf[f](b))))
        for a in sins:
            for b in coss:
                sa, cb = self.uf['sin'](a), self.uf['cos'](b)
                out.append(z3.Implies(a - b == pi / 2, sa == cb))
                out.append(z3.Implies(b - a == pi / 2, sa == -cb))
                out.append(z3.Implies(a + b == pi / 2, sa == cb))
                out.append(z3.Implies(a + b == -pi / 2, sa == -cb))
        pw = self.apps.get('pow', [])
        for i in range(len(pw)):
            for j in range(i + 1, len(pw)):
                (a, e1), (b, e2) = pw[i], pw[j]
                out.append(z3.Implies(z3.And(a == b, e1 == -e2, a > 0), self.uf['pow'](a, e1) * self.uf['pow'](b, e2) == 1))
                out.append(z3.Implies(z3.And(a == b, e1 == e2 + 1, a > 0), self.uf['pow'](a, e1) == a * self.uf['pow'](b, e2)))
                out.append(z3.Implies(z3.And(a == b, e2 == e1 + 1, a > 0), self.uf['pow'](b, e2) == a * self.uf['pow'](a, e1)))
        for (a, e) in pw:
            out.append(z3.Implies(a > 0, self.uf['pow'](a, e) > 0))
        allargs = []
        for a in sins + coss:
            if not any(a.eq(x) for x in allargs):
                allargs.append(a)
        if 'sin' in self.uf and 'cos' in self.uf:
            for a in allargs:
                sa, ca = self.uf['sin'](a), self.uf['cos'](a)
                out.append(sa * sa + ca * ca == 1)
        if 'tan' in self.uf:
            for (a,) in self.apps.get('tan', []):
                if 'sin' in self.uf and 'cos' in self.uf and any(a.eq(x) for x in allargs):
                    out.append(z3.Implies(self.uf['cos'](a) != 0,
                                          self.uf['tan'](a) == self.uf['sin'](a) / self.uf['cos'](a)))
        for (t,) in self.apps.get('exp', []):
            out.append(self.uf['exp'](t) > 0)
        out.append(z3.And(self.pi > z3.RealVal('3.14159'), self.pi < z3.RealVal('3.1416')))
        return out


# ------------------------------------------------------------------ the translator

_CMP = {ast.Lt: lambda a, b: a < b, ast.LtE: lambda a, b: a <= b, ast.Gt: lambda a, b: a > b,
        ast.GtE: lambda a, b: a >= b, ast.Eq: lambda a, b: a == b, ast.NotEq: lambda a, b: a != b}

_REL = {'Le': ast.LtE, 'Lt': ast.Lt, 'Ge': ast.GtE, 'Gt': ast.Gt, 'Eq': ast.Eq, 'Ne': ast.NotEq,
        'less_equal': ast.LtE, 'less': ast.Lt, 'greater_equal': ast.GtE, 'greater': ast.Gt,
        'equal': ast.Eq, 'not_equal': ast.NotEq}

_UNARY = {'sin': 'sin', 'cos': 'cos', 'tan': 'tan', 'exp': 'exp', 'log': 'log', 'ln': 'log',
          'atan': 'atan', 'arctan': 'atan', 'asin': 'asin', 'arcsin': 'asin', 'acos': 'acos', 'arccos': 'acos'}


class Translator:
    """Translate one expression; ``env`` maps names to already-translated values (substitution)."""

    def __init__(self, ctx, env=None, subs=None):
        self.ctx = ctx
        self.env = env or {}
        self.subs = subs or {}     # name -> ast (SubsService): substituted on our AST
        self._subs_stack = []

    def cmp(self, op, a, b):
        a, b = as_num(a), as_num(b)
        if isinstance(a, C) or isinstance(b, C):
            raise Unsupported('comparison of complex values')
        if _isc(a.v) and _isc(b.v):
            import operator
            pyop = {ast.Lt: operator.lt, ast.LtE: operator.le, ast.Gt: operator.gt, ast.GtE: operator.ge,
                    ast.Eq: operator.eq, ast.NotEq: operator.ne}[op]
            return B(z3.BoolVal(pyop(a.v, b.v)))
        return B(_CMP[op](tz(a.v), tz(b.v)))

    def tr(self, n):
        ctx = self.ctx
        if isinstance(n, ast.Expression):
            return self.tr(n.body)
        if isinstance(n, ast.Constant):
            v = n.value
            if isinstance(v, bool):
                return B(z3.BoolVal(v))
            if isinstance(v, int):
                return R(Fraction(v))
            if isinstance(v, float):
                return R(Fraction(repr(v)) if 'e' not in repr(v) and 'inf' not in repr(v) and 'nan' not in repr(v)
                         else Fraction(v) if v == v and abs(v) != float('inf') else self._bad('non-finite literal'))
            if isinstance(v, complex):
                return C(R(Fraction(repr(v.real))), R(Fraction(repr(v.imag))))
            raise Unsupported('constant %r' % (v,))
        if isinstance(n, ast.Name):
            name = n.id
            if name in self.env:
                return self.env[name]
            if name in self.subs and name not in self._subs_stack:
                self._subs_stack.append(name)
                try:
                    return self.tr(self.subs[name])
                finally:
                    self._subs_stack.pop()
            if name == 'pi':
                return R(ctx.pi)
            if name == 'nan':
                return R(ctx.nan)
            if name in ('I',):
                return C(R(Fraction(0)), R(Fraction(1)))
            if name in ('True', '__trues'):
                return B(z3.BoolVal(True))
            if name == '__falses':
                return B(z3.BoolVal(False))
            if name == '__zeros':
                return R(Fraction(0))
            if name == '__ones':
                return R(Fraction(1))
            if name == 'False':
                return B(z3.BoolVal(False))
            return ctx.var(name)
        if isinstance(n, ast.UnaryOp):
            a = self.tr(n.operand)
            if isinstance(n.op, ast.USub):
                a = as_num(a)
                return C(r_neg(a.re), r_neg(a.im)) if isinstance(a, C) else r_neg(a)
            if isinstance(n.op, ast.UAdd):
                return as_num(a)
            if isinstance(n.op, (ast.Invert, ast.Not)):
                return B(z3.Not(as_bool(a)))
            raise Unsupported(ast.dump(n.op))
        if isinstance(n, ast.BoolOp):
            vals = [as_bool(self.tr(v)) for v in n.values]
            return B(z3.And(*vals) if isinstance(n.op, ast.And) else z3.Or(*vals))
        if isinstance(n, ast.Compare):
            if len(n.ops) != 1:
                raise Unsupported('chained comparison')
            return self.cmp(type(n.ops[0]), self.tr(n.left), self.tr(n.comparators[0]))
        if isinstance(n, ast.BinOp):
            a, b = self.tr(n.left), self.tr(n.right)
            if isinstance(n.op, ast.BitAnd) and (isinstance(a, B) or isinstance(b, B)):
                return B(z3.And(as_bool(a), as_bool(b)))
            if isinstance(n.op, ast.BitOr) and (isinstance(a, B) or isinstance(b, B)):
                return B(z3.Or(as_bool(a), as_bool(b)))
            return self.binop(n.op, as_num(a), as_num(b))
        if isinstance(n, (ast.Tuple, ast.List)):
            return Tup([self.tr(e) for e in n.elts])
        if isinstance(n, ast.Call):
            return self.call(n)
        raise Unsupported(type(n).__name__)

    def _bad(self, msg):
        raise Unsupported(msg)

    def binop(self, op, a, b):
        ctx = self.ctx
        cx = isinstance(a, C) or isinstance(b, C)
        if isinstance(op, ast.Add):
            if cx:
                a, b = as_c(a), as_c(b)
                return C(r_add(a.re, b.re), r_add(a.im, b.im))
            return r_add(a, b)
        if isinstance(op, ast.Sub):
            if cx:
                a, b = as_c(a), as_c(b)
                return C(r_sub(a.re, b.re), r_sub(a.im, b.im))
            return r_sub(a, b)
        if isinstance(op, ast.Mult):
            if cx:
                return ctx.c_mul(as_c(a), as_c(b))
            return r_mul(a, b)
        if isinstance(op, ast.Div):
            if cx:
                b = as_c(b)
                den = r_add(r_mul(b.re, b.re), r_mul(b.im, b.im))
                if not _isc(den.v):
                    ctx.need(tz(den.v) != 0)
                return ctx.c_div(as_c(a), b)
            if not _isc(b.v):
                ctx.need(tz(b.v) != 0)
            elif b.v == 0:
                raise Unsupported('division by literal zero')
            return r_div(a, b)
        if isinstance(op, ast.Pow):
            if isinstance(b, C):
                raise Unsupported('complex exponent')
            if isinstance(a, C):
                if _isc(b.v) and b.v.denominator == 1:
                    n = int(b.v)
                    r = C(R(Fraction(1)), R(Fraction(0)))
                    for _ in range(abs(n)):
                        r = ctx.c_mul(r, a)
                    if n < 0:
                        r = ctx.c_div(C(R(Fraction(1)), R(Fraction(0))), r)
                    return r
                raise Unsupported('non-integer power of complex')
            return ctx.f_pow(a, b)
        raise Unsupported(type(op).__name__)

    def call(self, n):
        ctx = self.ctx
        fname = ast.unparse(n.func)
        kw = {k.arg: k.value for k in n.keywords}
        args = n.args
        if fname == 'Indicator':
            return self.tr(args[0])
        if fname in _REL:
            return self.cmp(_REL[fname], self.tr(args[0]), self.tr(args[1]))
        if fname in ('logical_and', 'And'):
            return B(z3.And(*[as_bool(self.tr(a)) for a in args]))
        if fname in ('logical_or', 'Or'):
            return B(z3.Or(*[as_bool(self.tr(a)) for a in args]))
        if fname in ('logical_not', 'Not'):
            return B(z3.Not(as_bool(self.tr(args[0]))))
        if fname in ('logical_and.reduce', 'logical_or.reduce'):
            t = self.tr(args[0])
            if not isinstance(t, Tup):
                raise Unsupported(fname + ' of non-tuple')
            bs = [as_bool(x) for x in t.items]
            return B(z3.And(*bs) if 'and' in fname else z3.Or(*bs))
        if fname == 'Piecewise':
            for a in args:
                if not isinstance(a, ast.Tuple) or len(a.elts) != 2:
                    raise Unsupported('Piecewise arm')
            return self.pw_guarded([a.elts[1] for a in args], [a.elts[0] for a in args], R(ctx.nan))
        if fname == 'select':
            default = self.tr(kw['default']) if 'default' in kw else (self.tr(args[2]) if len(args) > 2 else R(Fraction(0)))
            if not isinstance(args[0], (ast.List, ast.Tuple)) or not isinstance(args[1], (ast.List, ast.Tuple)) \
                    or len(args[0].elts) != len(args[1].elts):
                raise Unsupported('select shape')
            return self.pw_guarded(list(args[0].elts), list(args[1].elts), as_num(default))
        if fname == 'sqrt':
            a = as_num(self.tr(args[0]))
            if isinstance(a, C):
                # sqrt of a complex-typed expression: supported when its imaginary part is provably zero
                ctx.side_goals.append(ctx.guarded(tz(a.im.v) == 0))
                return ctx.f_sqrt(a.re)
            return ctx.f_sqrt(a)
        if fname in _UNARY:
            a = as_num(self.tr(args[0]))
            if isinstance(a, C):
                if _UNARY[fname] == 'exp':
                    return ctx.c_exp(a)
                if _UNARY[fname] == 'log':
                    mod = ctx.c_abs(a)
                    ctx.need(tz(mod.v) > 0)
                    return C(R(ctx.app('log', mod.v)), R(ctx.app('atan2', a.im.v, a.re.v)))
                raise Unsupported(fname + ' of complex')
            return ctx.f_unary(_UNARY[fname], a)
        if fname in ('atan2', 'arctan2'):
            return ctx.f_atan2(as_num(self.tr(args[0])), as_num(self.tr(args[1])))
        if fname in ('abs', 'Abs'):
            a = as_num(self.tr(args[0]))
            return ctx.c_abs(a) if isinstance(a, C) else ctx.f_abs(a)
        if fname == 'sign':
            return ctx.f_sign(as_num(self.tr(args[0])))
        if fname in ('re', 'real'):
            a = as_num(self.tr(args[0]))
            return a.re if isinstance(a, C) else a
        if fname in ('im', 'imag'):
            a = as_num(self.tr(args[0]))
            return a.im if isinstance(a, C) else R(Fraction(0))
        if fname in ('conj', 'conjugate'):
            a = as_num(self.tr(args[0]))
            return C(a.re, r_neg(a.im)) if isinstance(a, C) else a
        if fname in ('arg', 'angle'):
            a = as_c(self.tr(args[0]))
            return ctx.f_atan2(a.im, a.re)
        if fname == 'rad':
            a = as_num(self.tr(args[0]))
            return r_div(r_mul(a, R(ctx.pi)), R(Fraction(180)))
        if fname == 'radians':
            a = as_num(self.tr(args[0]))
            return R(ctx.app('radians', a.v), s_mul(ctx.app('radians', Fraction(1)), a.d))
        if fname == 'safe_div':
            a, b = as_num(self.tr(args[0])), as_num(self.tr(args[1]))
            if isinstance(a, C) or isinstance(b, C):
                raise Unsupported('safe_div of complex')
            # npfunc.safe_div: a/b where b != 0, else 0  (two-argument form)
            if len(args) != 2:
                raise Unsupported('safe_div with out=')
            if _isc(b.v):
                return r_div(a, b) if b.v != 0 else R(Fraction(0))
            c = tz(b.v) != 0
            q = r_div(a, b)
            return r_ite(c, q, R(Fraction(0)))
        if fname in ('Max', 'Min', 'maximum', 'minimum'):
            a, b = as_num(self.tr(args[0])), as_num(self.tr(args[1]))
            c = (tz(a.v) >= tz(b.v)) if fname in ('Max', 'maximum') else (tz(a.v) <= tz(b.v))
            return r_ite(c, a, b)
        if fname == 'array':
            return self.tr(args[0])
        if fname in ('float', 'Float'):
            return as_num(self.tr(args[0]))
        raise Unsupported('function ' + fname)

    def pw_guarded(self, cond_nodes, val_nodes, default):
        """translate arm values under the path condition of their arm (for domain conditions)"""
        ctx = self.ctx
        conds = [as_bool(self.tr(c)) for c in cond_nodes]
        pairs = []
        before = []
        for c, vn in zip(conds, val_nodes):
            ctx.guards.append(z3.And(*[z3.Not(b) for b in before], c) if before else c)
            try:
                pairs.append((self.tr(vn), c))
            finally:
                ctx.guards.pop()
            before.append(c)
        return self.pw(pairs, default)

    def pw(self, pairs, default):
        """first matching arm wins; values may be real/complex/bool"""
        vals = [as_num(v) for v, _ in pairs] + [as_num(default)]
        if any(isinstance(v, C) for v in vals):
            vals = [as_c(v) for v in vals]
            out = vals[-1]
            for v, (_, c) in zip(reversed(vals[:-1]), reversed(pairs)):
                out = C(r_ite(c, v.re, out.re), r_ite(c, v.im, out.im))
            return out
        out = vals[-1]
        for v, (_, c) in zip(reversed(vals[:-1]), reversed(pairs)):
            out = r_ite(c, v, out)
        return out


def parse(src):
    return ast.parse(src.strip(), mode='eval').body


def flatten(val):
    """value -> list of (label, z3 real term) components used in equalities; derivative selected by caller"""
    if isinstance(val, Tup):
        out = []
        for i, it in enumerate(val.items):
            out.extend(flatten(it))
        return out
    return [val]


def eq_goal(a, b, deriv=False):
    """z3 formula: a == b componentwise (value, or derivative part when ``deriv``)"""
    a, b = as_num(a), as_num(b)
    pick = (lambda r: tz(r.d)) if deriv else (lambda r: tz(r.v))
    if isinstance(a, C) or isinstance(b, C):
        a, b = as_c(a), as_c(b)
        return z3.And(pick(a.re) == pick(b.re), pick(a.im) == pick(b.im))
    return pick(a) == pick(b)
