"""
pyvc.exprvc -- contracts on generated code (``pycode/<Model>.py``) and on declared equation strings.

The verified text is produced on every run by the real constructors and the real code generator of the
working tree (``andes.System(...).prepare``) in a scratch directory; nothing is hand-copied.
"""
import ast
import importlib.util
import math
import os
import random
import shutil
import sys
import tempfile
from collections import OrderedDict
from concurrent.futures import ProcessPoolExecutor

import z3

from . import expr as X
from . import numeval as N
from .smt import prove, smt2_head

SELECT_PAD = ["__zeros", "__ones", "__falses", "__trues"]
GLOBAL_NAMES = {'pi', 'nan'}


# ---------------------------------------------------------------------------------------------- generation

def generate(pycode_dir=None, ncpu=16, quiet=True):
    """Run the real code generator of the working tree into a scratch dir.  Returns (system, dir)."""
    import andes
    import logging
    logging.getLogger('andes').setLevel(logging.ERROR)
    d = pycode_dir or tempfile.mkdtemp(prefix='verif_pycode_')
    out = sys.stdout
    if quiet:
        sys.stdout = open(os.devnull, 'w')
    try:
        ss = andes.System(no_undill=True, default_config=True, pycode_path=d)
        ss.prepare(quick=True, ncpu=ncpu)
    finally:
        if quiet:
            sys.stdout.close()
            sys.stdout = out
    return ss, d


def bundle_of(model):
    """Plain-data description of what a model *declares* (strings on the live object)."""
    c = model.cache
    vars_ = []
    for name, v in c.all_vars.items():
        vars_.append({'name': name, 'e_code': v.e_code, 'v_code': v.v_code,
                      'v_str': v.v_str if isinstance(v.v_str, str) else (None if v.v_str is None else repr(v.v_str)),
                      'v_iter': v.v_iter, 'diag_eps': v.diag_eps, 'e_str': v.e_str,
                      'e_inplace': bool(getattr(v, 'e_inplace', False)), 'v_inplace': bool(getattr(v, 'v_inplace', False)),
                      'cls': type(v).__name__})
    services = []
    for name, s in model.services.items():
        services.append({'name': name, 'v_str': s.v_str, 'sequential': bool(s.sequential),
                         'complex': s.vtype == complex, 'cls': type(s).__name__})
    subs = {name: s.v_str for name, s in model.services_subs.items() if s.v_str is not None}
    inputs = list(c.all_params_names) + list(c.all_vars_names) + list(model.config.as_dict().keys()) + \
        ['dae_t', 'sys_f', 'sys_mva']
    cplx = [s['name'] for s in services if s['complex']]
    for name in c.all_params_names:
        inst = model.__dict__.get(name)
        if inst is not None and getattr(inst, 'vtype', None) == complex and name not in cplx:
            cplx.append(name)
    return {
        'name': model.class_name,
        'f': [(n, v.e_str) for n, v in c.states_and_ext.items()],
        'g': [(n, v.e_str) for n, v in c.algebs_and_ext.items()],
        'vars': vars_, 'services': services, 'subs': subs, 'inputs': inputs, 'complex': cplx,
        'md5': model.get_md5(),
    }


# ---------------------------------------------------------------------------------------------- pycode parsing

class PyCode:
    def __init__(self, path):
        self.path = path
        src = open(path).read()
        self.tree = ast.parse(src)
        self.funcs = OrderedDict()
        self.tables = {}
        self.problems = []
        for n in self.tree.body:
            if isinstance(n, ast.FunctionDef):
                body = [b for b in n.body if not (isinstance(b, ast.Expr) and isinstance(b.value, ast.Constant))]
                if len(body) != 1 or not isinstance(body[0], ast.Return) or n.args.vararg or n.args.kwarg \
                        or n.args.kwonlyargs or n.args.defaults:
                    self.problems.append('function %s is not a single return of its positional arguments' % n.name)
                    continue
                self.funcs[n.name] = ([a.arg for a in n.args.args], body[0].value)
            elif isinstance(n, ast.Assign) and len(n.targets) == 1 and isinstance(n.targets[0], ast.Name):
                try:
                    self.tables[n.targets[0].id] = eval(compile(ast.Expression(n.value), path, 'eval'),
                                                        {'OrderedDict': OrderedDict, '__builtins__': {}})
                except Exception as e:  # pragma: no cover
                    self.problems.append('table %s: %s' % (n.targets[0].id, e))


def free_names(node):
    return {n.id for n in ast.walk(node) if isinstance(n, ast.Name)}


def called_names(node):
    out = set()
    for n in ast.walk(node):
        if isinstance(n, ast.Call):
            f = n.func
            while isinstance(f, ast.Attribute):
                f = f.value
            if isinstance(f, ast.Name):
                out.add(f.id)
    return out


# ---------------------------------------------------------------------------------------------- obligations

def _structural(name, ok, detail, meta=None):
    return {'name': name, 'verdict': 'proved' if ok else 'refuted', 'backend': 'structural', 'time_s': 0.0,
            'model': None, 'smt2': None, 'meta': dict(meta or {}, detail=detail, structural=True), 'note': detail}


def _comps(val, which):
    val = X.as_num(val)
    pick = (lambda r: X.tz(r.d)) if which == 'd' else (lambda r: X.tz(r.v))
    if isinstance(val, X.C):
        return [pick(val.re), pick(val.im)]
    return [pick(val)]


def equality(name, bundle, spec_src, code_ast, seed=None, meta=None, spec_ast=None, keep_smt2=False, extra_subs=None):
    """Obligation: for all arguments in the domain of ``spec_src``: code == spec (or d spec / d seed)."""
    meta = dict(meta or {})
    ctx = X.Ctx()
    ctx.cplx = set(bundle['complex'])
    ctx.seed = seed
    subs = {k: X.parse(v) for k, v in bundle['subs'].items()}
    if extra_subs:
        subs.update(extra_subs)
    try:
        ctx.collecting = True
        ctx.deriv_domain = seed is not None
        sv = X.Translator(ctx, subs=subs).tr(spec_ast if spec_ast is not None else X.parse(spec_src))
        ctx.collecting = False
        cv = X.Translator(ctx).tr(code_ast)
    except X.Unsupported as e:
        return {'name': name, 'verdict': 'unknown', 'backend': 'translator', 'time_s': 0.0, 'model': None,
                'smt2': None, 'meta': meta, 'note': 'unsupported: %s' % e}
    a = _comps(sv, 'd' if seed is not None else 'v')
    b = _comps(cv, 'v')
    if len(a) != len(b):
        if len(a) == 1:
            a = a + [z3.RealVal(0)]
        if len(b) == 1:
            b = b + [z3.RealVal(0)]
    goal = z3.And(*([x == y for x, y in zip(a, b)] + ctx.side_goals))
    hyps = list(ctx.domain) + ctx.instances()
    r = prove(name, hyps, goal, meta=meta, keep_smt2=keep_smt2)
    d = r.as_dict()
    if keep_smt2 and d.get('smt2'):
        d['smt2'] = d['smt2'][:1500]
    return d


def check_model(args):
    """Worker: all C02/C03 obligations of one model.  Returns list of result dicts."""
    bundle, path, which, sample = args
    z3.set_param('parallel.enable', False)
    out = []
    mname = bundle['name']
    pc = PyCode(path)
    P = 'pycode/%s.py' % mname
    for p in pc.problems:
        out.append(_structural('%s/%s:shape' % (which, P), False, p))
    T = pc.tables
    vars_ = bundle['vars']
    vnames = [v['name'] for v in vars_]
    vinfo = {v['name']: v for v in vars_}
    inputs = set(bundle['inputs'])
    keep = [0]

    def ks():
        keep[0] += 1
        return sample and keep[0] <= 2

    def arg_obl(fname, table_args):
        """(c) declared argument table == def signature; names resolvable; no free name outside args"""
        if fname not in pc.funcs:
            return
        args_, ret = pc.funcs[fname]
        out.append(_structural('C02/%s:%s/args-table' % (P, fname), list(table_args) == list(args_),
                               'table=%s def=%s' % (list(table_args)[:6], args_[:6])))
        unresolved = [a for a in args_ if a not in inputs and a not in SELECT_PAD]
        out.append(_structural('C02/%s:%s/args-resolvable' % (P, fname), not unresolved, 'unresolved=%s' % unresolved))
        loose = sorted(free_names(ret) - set(args_) - GLOBAL_NAMES - called_names(ret))
        out.append(_structural('C02/%s:%s/no-free-names' % (P, fname), not loose, 'free=%s' % loose))

    if which == 'C02':
        out.append(_structural('C02/%s:md5' % P, T.get('md5') == bundle['md5'],
                               'pycode md5 %s vs model.get_md5() %s' % (T.get('md5'), bundle['md5'])))
        # ---- f_update / g_update
        for kind in ('f', 'g'):
            fname = kind + '_update'
            decl = bundle[kind]
            nonzero = [e for _, e in decl if e is not None]
            if fname not in pc.funcs:
                # generator emits no function iff every declared equation is absent/zero
                if nonzero:
                    triv = []
                    for vn, e in decl:
                        if e is None:
                            continue
                        r = equality('C02/%s:%s/absent(%s)' % (P, fname, vn), bundle, e, ast.Constant(0))
                        triv.append(r)
                    out.extend(triv)
                continue
            args_, ret = pc.funcs[fname]
            arg_obl(fname, T.get(kind + '_args', []))
            elts = ret.elts if isinstance(ret, ast.Tuple) else None
            out.append(_structural('C02/%s:%s/arity' % (P, fname), elts is not None and len(elts) == len(decl),
                                   'returned %s, declared %d' % (len(elts) if elts is not None else None, len(decl))))
            if elts is None or len(elts) != len(decl):
                continue
            for k, ((vn, e), c) in enumerate(zip(decl, elts)):
                out.append(equality('C02/%s:%s/post#%d(%s)' % (P, fname, k, vn), bundle, e if e is not None else '0', c,
                                    meta={'model': mname, 'func': fname, 'k': k, 'var': vn,
                                          'spec': e if e is not None else '0'}, keep_smt2=ks()))
        # ---- services
        seq = [s for s in bundle['services'] if s['sequential']]
        nonseq = [s for s in bundle['services'] if not s['sequential']]
        s_args = T.get('s_args', {})
        for s in seq:
            fname = s['name'] + '_svc'
            if s['v_str'] is None:
                continue
            if fname not in pc.funcs:
                out.append(_structural('C02/%s:%s/exists' % (P, fname), False, 'service function missing'))
                continue
            arg_obl(fname, s_args.get(s['name'], []))
            out.append(equality('C02/%s:%s/post' % (P, fname), bundle, s['v_str'], pc.funcs[fname][1],
                                meta={'model': mname, 'func': fname, 'k': None, 'var': s['name'], 'spec': s['v_str']},
                                keep_smt2=ks()))
        if nonseq:
            fname = 'sns_update'
            if fname not in pc.funcs:
                out.append(_structural('C02/%s:%s/exists' % (P, fname), False, 'sns function missing'))
            else:
                arg_obl(fname, T.get('sns_args', []))
                ret = pc.funcs[fname][1]
                elts = ret.elts if isinstance(ret, ast.Tuple) else None
                ok = elts is not None and len(elts) == len(nonseq)
                out.append(_structural('C02/%s:%s/arity' % (P, fname), ok, ''))
                if ok:
                    for k, (s, c) in enumerate(zip(nonseq, elts)):
                        spec = s['v_str'] if s['v_str'] is not None else '0'
                        out.append(equality('C02/%s:%s/post#%d(%s)' % (P, fname, k, s['name']), bundle, spec, c,
                                            meta={'model': mname, 'func': fname, 'k': k, 'var': s['name'], 'spec': spec}))
        # ---- initialisation: assignments
        ia_args = T.get('ia_args', {})
        for v in vars_:
            if v['v_str'] is None:
                continue
            fname = v['name'] + '_ia'
            if fname not in pc.funcs:
                out.append(_structural('C02/%s:%s/exists' % (P, fname), False, 'init function missing'))
                continue
            arg_obl(fname, ia_args.get(v['name'], []))
            out.append(equality('C02/%s:%s/post' % (P, fname), bundle, v['v_str'], pc.funcs[fname][1],
                                meta={'model': mname, 'func': fname, 'k': None, 'var': v['name'], 'spec': v['v_str']},
                                keep_smt2=ks()))
        # ---- initialisation: iterative blocks
        ii_args, ij_args = T.get('ii_args', {}), T.get('ij_args', {})
        for item in T.get('init_seq', []):
            names = item if isinstance(item, list) else [item]
            if not isinstance(item, list) and vinfo.get(item, {}).get('v_iter') is None:
                continue
            if any(vinfo.get(nm, {}).get('v_iter') is None for nm in names):
                out.append(_structural('C02/%s:init_seq(%s)/v_iter-declared' % (P, '_'.join(names)), False,
                                       'circular block without v_iter'))
                continue
            cat = '_'.join(names)
            fi, fj = cat + '_ii', cat + '_ij'
            if fi not in pc.funcs or fj not in pc.funcs:
                out.append(_structural('C02/%s:%s/exists' % (P, fi), False, 'iterative init function missing'))
                continue
            arg_obl(fi, ii_args.get(cat, []))
            arg_obl(fj, ij_args.get(cat, []))
            rows = _matrix_rows(pc.funcs[fi][1])
            ok = rows is not None and len(rows) == len(names) and all(len(r) == 1 for r in rows)
            out.append(_structural('C02/%s:%s/shape' % (P, fi), ok, 'rows=%s' % (None if rows is None else len(rows))))
            if ok:
                for k, (nm, r) in enumerate(zip(names, rows)):
                    out.append(equality('C02/%s:%s/post#%d(%s)' % (P, fi, k, nm), bundle, vinfo[nm]['v_iter'], r[0],
                                        meta={'model': mname, 'func': fi, 'k': k, 'var': nm, 'spec': vinfo[nm]['v_iter']}))
            rows = _matrix_rows(pc.funcs[fj][1])
            ok = rows is not None and len(rows) == len(names) and all(len(r) == len(names) for r in rows)
            out.append(_structural('C02/%s:%s/shape' % (P, fj), ok, ''))
            if ok:
                for i, nm in enumerate(names):
                    for j, wrt in enumerate(names):
                        out.append(equality('C02/%s:%s/post#%d,%d(d %s/d %s)' % (P, fj, i, j, nm, wrt), bundle,
                                            vinfo[nm]['v_iter'], rows[i][j], seed=wrt,
                                            meta={'model': mname, 'func': fj, 'k': (i, j), 'var': nm, 'wrt': wrt,
                                                  'spec': vinfo[nm]['v_iter']}))
        # init_seq covers every variable with an initialiser exactly once (delivered to the declared variable)
        flat = []
        for item in T.get('init_seq', []):
            flat.extend(item if isinstance(item, list) else [item])
        need = [v['name'] for v in vars_ if v['v_str'] is not None or v['v_iter'] is not None]
        dup = sorted({x for x in flat if flat.count(x) > 1})
        out.append(_structural('C02/%s:init_seq/covers-initialised-vars' % P, not dup and all(n in flat for n in need),
                               'dup=%s missing=%s' % (dup, [n for n in need if n not in flat])))
        return out

    # =============================================================================== C03
    eqs = {'f': bundle['f'], 'g': bundle['g']}
    ijac, jjac, vjac = T.get('ijac', {}), T.get('jjac', {}), T.get('vjac', {})
    j_args = T.get('j_args', {})
    listed = {jn: set(zip(ijac.get(jn, []), jjac.get(jn, []))) for jn in ('fx', 'fy', 'gx', 'gy')}
    for jn in ('fx', 'fy', 'gx', 'gy'):
        fname = jn + '_update'
        rows, cols = ijac.get(jn, []), jjac.get(jn, [])
        if fname not in pc.funcs:
            out.append(_structural('C03/%s:%s/exists-iff-entries' % (P, fname), len(rows) == 0,
                                   'no function but %d table entries' % len(rows)))
            continue
        args_, ret = pc.funcs[fname]
        arg_obl_c03 = _structural('C03/%s:%s/args-table' % (P, fname), list(j_args.get(jn, [])) == list(args_), '')
        out.append(arg_obl_c03)
        loose = sorted(free_names(ret) - set(args_) - GLOBAL_NAMES - called_names(ret))
        out.append(_structural('C03/%s:%s/no-free-names' % (P, fname), not loose, 'free=%s' % loose))
        elts = ret.elts if isinstance(ret, ast.Tuple) else None
        ok = elts is not None and len(elts) == len(rows) == len(cols) == len(vjac.get(jn, []))
        out.append(_structural('C03/%s:%s/arity' % (P, fname), ok,
                               'returned %s, ijac %d, jjac %d' % (None if elts is None else len(elts), len(rows), len(cols))))
        out.append(_structural('C03/%s:%s/no-duplicate-entries' % (P, fname), len(listed[jn]) == len(rows), ''))
        if not ok:
            continue
        decl = eqs[jn[0]]
        for k, (i, j, c) in enumerate(zip(rows, cols, elts)):
            if not (0 <= i < len(decl) and 0 <= j < len(vnames)):
                out.append(_structural('C03/%s:%s/index#%d' % (P, fname, k), False, 'index out of range'))
                continue
            en, e = decl[i]
            wrt = vnames[j]
            okcode = vinfo[wrt]['v_code'] == jn[1]
            out.append(_structural('C03/%s:%s/class#%d' % (P, fname, k), okcode,
                                   'd%s/d%s filed under %s' % (en, wrt, jn)))
            out.append(equality('C03/%s:%s/post#%d(d %s/d %s)' % (P, fname, k, en, wrt), bundle,
                                e if e is not None else '0', c, seed=wrt,
                                meta={'model': mname, 'func': fname, 'k': k, 'var': en, 'wrt': wrt,
                                      'spec': e if e is not None else '0'}, keep_smt2=ks()))
    # (b) completeness: every (equation, variable) pair that is not in a table has derivative 0
    subs_ast = {k: X.parse(v) for k, v in bundle['subs'].items()}
    for kind in ('f', 'g'):
        for i, (en, e) in enumerate(eqs[kind]):
            if e is None:
                continue
            names = _expanded_names(X.parse(e), subs_ast)
            for j, wrt in enumerate(vnames):
                if wrt not in names:
                    continue
                jn = kind + vinfo[wrt]['v_code']
                if (i, j) in listed.get(jn, set()):
                    continue
                out.append(equality('C03/%s:pattern/complete(d %s/d %s)' % (P, en, wrt), bundle, e, ast.Constant(0),
                                    seed=wrt, meta={'model': mname, 'func': 'pattern', 'var': en, 'wrt': wrt, 'spec': e}))
    # (c) constant entries: exactly the declared diag_eps on the variable's own diagonal
    want = {}
    for v in vars_:
        de = v['diag_eps']
        if de == 0.0 and de is not True:
            continue
        eq_list = [n for n, _ in eqs['g' if v['e_code'] == 'g' else 'f']]
        want.setdefault(v['e_code'] + v['v_code'] + 'c', []).append(
            (eq_list.index(v['name']), vnames.index(v['name']), de))
    for jn in ('fxc', 'fyc', 'gxc', 'gyc'):
        got = list(zip(ijac.get(jn, []), jjac.get(jn, []), vjac.get(jn, [])))
        exp = want.get(jn, [])
        ok = len(got) == len(exp) and all(g[0] == w[0] and g[1] == w[1] and (w[2] is True or g[2] == w[2])
                                          and isinstance(g[2], (int, float)) and g[2] > 0
                                          for g, w in zip(got, exp))
        out.append(_structural('C03/%s:%s/constants' % (P, jn), ok, 'got=%s expected=%s' % (got[:4], exp[:4])))
    return out


def _expanded_names(node, subs, depth=0):
    names = set()
    for n in ast.walk(node):
        if isinstance(n, ast.Name):
            if n.id in subs and depth < 8:
                names |= _expanded_names(subs[n.id], subs, depth + 1)
            else:
                names.add(n.id)
    return names


def _matrix_rows(node):
    """array([[a], [b]]) -> [[a],[b]] as ast nodes"""
    if isinstance(node, ast.Call) and ast.unparse(node.func) == 'array' and node.args:
        node = node.args[0]
    if isinstance(node, (ast.List, ast.Tuple)) and all(isinstance(r, (ast.List, ast.Tuple)) for r in node.elts):
        return [list(r.elts) for r in node.elts]
    return None


def run_models(bundles, pycode_dir, which, workers=16, sample_models=('PQ', 'Line', 'GENROU')):
    jobs = []
    for name, b in bundles.items():
        path = os.path.join(pycode_dir, name + '.py')
        if not os.path.exists(path):
            jobs.append(None)
            continue
        jobs.append((b, path, which, name in sample_models))
    results = []
    real_jobs = [j for j in jobs if j is not None]
    # big models first for better packing
    real_jobs.sort(key=lambda j: -os.path.getsize(j[1]))
    with ProcessPoolExecutor(max_workers=workers) as ex:
        for res in ex.map(check_model, real_jobs, chunksize=1):
            results.extend(res)
    missing = [n for n, j in zip(bundles, jobs) if j is None]
    return results, missing


# ---------------------------------------------------------------------------------------------- native replay

_MODCACHE = {}


def load_pycode_module(path):
    if path in _MODCACHE:
        return _MODCACHE[path]
    _MODCACHE[path] = _load_pycode_module(path)
    return _MODCACHE[path]


def _load_pycode_module(path):
    spec = importlib.util.spec_from_file_location('verif_pycode_' + os.path.basename(path)[:-3], path)
    mod = importlib.util.module_from_spec(spec)
    spec.loader.exec_module(mod)
    return mod


def _env_from_model(model, args, cplx, rnd=None):
    env = {}
    for a in args:
        if a in SELECT_PAD:
            env[a] = {'__zeros': 0.0, '__ones': 1.0, '__falses': False, '__trues': True}[a]
            continue
        def get(nm):
            if model and nm in model:
                v = model[nm]
                if isinstance(v, bool):
                    return float(v)
                try:
                    from fractions import Fraction
                    return float(Fraction(v))
                except Exception:
                    try:
                        return float(v)
                    except Exception:
                        return 1.0
            return rnd.uniform(0.2, 2.0) * rnd.choice([1, 1, 1, -1]) if rnd else 1.0
        if a in cplx:
            env[a] = complex(get(a + '__re'), get(a + '__im'))
        else:
            env[a] = get(a)
    return env


def native_compare(bundle, pycode_dir, meta, model, rnd, npoints=200):
    """Run the real generated function and an independent float evaluation of the declared string.
    Returns dict(verdict='confirmed'|'agree'|'error', ...)."""
    path = os.path.join(pycode_dir, bundle['name'] + '.py')
    try:
        mod = load_pycode_module(path)
        fn = getattr(mod, meta['func'])
    except Exception as e:
        return {'verdict': 'error', 'why': 'cannot load real function: %s' % e}
    import inspect
    args = list(inspect.signature(fn).parameters)
    cplx = set(bundle['complex'])
    subs = {k: X.parse(v) for k, v in bundle['subs'].items()}
    spec_ast = X.parse(meta['spec'])
    wrt = meta.get('wrt')
    k = meta.get('k')
    spec_names = _expanded_names(spec_ast, subs) - {'pi', 'nan', 'I'}
    if wrt is not None:
        spec_names = spec_names | {wrt}

    def one(env):
        import numpy as np
        full = dict(env)
        for nm in spec_names:
            if nm not in full and nm not in ('pi', 'nan', 'I'):
                full[nm] = env.get(nm, 1.0)
        with np.errstate(all='ignore'):
            got = fn(*[env[a] for a in args])
        got = N.flat(got)
        if isinstance(k, (list, tuple)):
            n = int(round(math.sqrt(len(got))))
            g = got[k[0] * n + k[1]]
        elif k is None:
            g = got[0]
        else:
            g = got[k]
        if wrt is None:
            exp = N.ev(spec_ast, full, subs)
        else:
            h = 1e-6 * max(1.0, abs(full[wrt]))
            e1, e2 = dict(full), dict(full)
            e1[wrt] = full[wrt] + h
            e2[wrt] = full[wrt] - h
            exp = (N.ev(spec_ast, e1, subs) - N.ev(spec_ast, e2, subs)) / (2 * h)
        return g, exp

    tol = dict(rtol=1e-4, atol=1e-6) if wrt is not None else dict(rtol=1e-9, atol=1e-12)
    tried = 0
    points = []
    if model:
        points.append(_env_from_model(model, sorted(set(args) | spec_names), cplx))
    for _ in range(npoints):
        points.append(_env_from_model(None, sorted(set(args) | spec_names), cplx, rnd))
    for env in points:
        try:
            g, exp = one(env)
        except (N.NumUnsupported, KeyError, TypeError, ValueError, OverflowError, ZeroDivisionError):
            continue
        tried += 1
        bad = (g != g) != (exp != exp) if False else False
        if (isinstance(exp, complex) and exp != exp) or (isinstance(exp, float) and exp != exp):
            continue  # outside the domain of the declared equation
        if not N.close(complex(g), complex(exp), **tol):
            return {'verdict': 'confirmed', 'inputs': {a: repr(v) for a, v in env.items()}, 'observed': repr(g),
                    'expected': repr(exp), 'tried': tried,
                    'native_cmd': 'call %s.%s(*inputs) from the generated module and compare with the declared string'
                                  % (bundle['name'], meta['func'])}
    return {'verdict': 'agree', 'tried': tried}


# ---------------------------------------------------------------------------------------------- settling verdicts

def settle(pack, results, bundles, pycode_dir, seed=0, npoints=200):
    """Turn raw verdicts into the pack's report: refutations are replayed on the real generated function."""
    rnd = random.Random(seed)
    for r in results:
        meta = r.get('meta') or {}
        if r['verdict'] == 'proved':
            pack.add(r)
            continue
        name = r['name']
        if meta.get('structural'):
            pack.add(r)
            pack.violation(name, {'kind': 'structural', 'detail': meta.get('detail'), 'solver': 'none',
                                  'verdict': 'structural obligation failed on the generated file'}, no_input=True)
            continue
        if 'func' not in meta or meta.get('func') == 'pattern' and False:
            pack.add(r)
            pack.undecided_obl(name, r.get('note', ''))
            continue
        b = bundles[meta['model']]
        if meta['func'] == 'pattern':
            # completeness obligation: no generated function to call; compare d spec/d wrt with 0 natively
            cmpres = _native_pattern(b, meta, r.get('model'), rnd, npoints)
        else:
            cmpres = native_compare(b, pycode_dir, meta, r.get('model'), rnd, npoints)
        r = dict(r)
        r['note'] = (r.get('note') or '') + ' native:' + cmpres['verdict']
        pack.add(r)
        if cmpres['verdict'] == 'confirmed':
            pack.violation(name, {'solver': r['backend'], 'solver_verdict': r['verdict'], 'model': r.get('model'),
                                  'spec': meta.get('spec'), 'function': '%s.%s' % (meta['model'], meta['func']),
                                  'element': meta.get('k'), 'wrt': meta.get('wrt'), **cmpres})
        else:
            pack.undecided_obl(name, '%s by %s; native comparison on %s points: %s'
                               % (r['verdict'], r['backend'], cmpres.get('tried'), cmpres['verdict']))


def _native_pattern(bundle, meta, model, rnd, npoints):
    subs = {k: X.parse(v) for k, v in bundle['subs'].items()}
    spec_ast = X.parse(meta['spec'])
    names = sorted(_expanded_names(spec_ast, subs))
    wrt = meta['wrt']
    cplx = set(bundle['complex'])
    tried = 0
    pts = ([_env_from_model(model, names, cplx)] if model else []) + \
        [_env_from_model(None, names, cplx, rnd) for _ in range(npoints)]
    for env in pts:
        try:
            h = 1e-6 * max(1.0, abs(env[wrt]))
            e1, e2 = dict(env), dict(env)
            e1[wrt] += h
            e2[wrt] -= h
            d = (N.ev(spec_ast, e1, subs) - N.ev(spec_ast, e2, subs)) / (2 * h)
        except (N.NumUnsupported, KeyError, TypeError, ValueError, OverflowError, ZeroDivisionError):
            continue
        tried += 1
        if d == d and abs(d) > 1e-5:
            return {'verdict': 'confirmed', 'inputs': {a: repr(v) for a, v in env.items()}, 'observed': 'entry absent (0)',
                    'expected': repr(d), 'tried': tried,
                    'native_cmd': 'finite difference of the declared equation w.r.t. %s' % wrt}
    return {'verdict': 'agree', 'tried': tried}


def canaries(bundles, pycode_dir, which, limit=40):
    """must-fail canaries: for a sample of functions, 'code + 1 == spec' has to be refuted; if it is proved the
    hypotheses (domain conditions + instances) are contradictory."""
    failed, n = [], 0
    for name, b in list(bundles.items()):
        if n >= limit:
            break
        path = os.path.join(pycode_dir, name + '.py')
        if not os.path.exists(path):
            continue
        pc = PyCode(path)
        kind = 'g' if which == 'C02' else None
        if which == 'C02' and 'g_update' in pc.funcs and b['g']:
            ret = pc.funcs['g_update'][1]
            if isinstance(ret, ast.Tuple) and ret.elts and b['g'][0][1] is not None:
                bumped = ast.BinOp(left=ret.elts[0], op=ast.Add(), right=ast.Constant(1))
                r = equality('canary/%s' % name, b, b['g'][0][1], bumped)
                n += 1
                if r['verdict'] == 'proved':
                    failed.append('canary %s.g_update[0]+1 was proved' % name)
    return n, failed
