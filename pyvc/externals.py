"""
pyvc.externals -- assumed contracts of library functions used by the functions under contract.

Everything here is *trusted* (listed in each evidence file under trusted_base): NumPy element-wise functions and
reductions with their textbook definitions (NaN propagates through abs/max/argmax), copy semantics of
``np.array`` / ``.copy()``, in-place semantics of ``np.put`` / subscript stores.
"""
import ast

import z3

from .symex import Outcomes, as_real, to_z3, zb, zand, zor, znot, is_intlike
from .symval import NR, ArrC, ListC, Opaque, Ref, SeqC, Unsupported, fresh, I, R, Bo, ExcVal

TRUSTED_NUMPY = (
    'NumPy: element-wise arithmetic/comparison is pointwise real arithmetic with NaN propagation; np.abs, np.isnan, '
    'np.max/np.argmax (argmax returns an index of a maximal |.|, a NaN index if any NaN is present), np.array/.copy() '
    'return fresh arrays with equal contents, basic slices read as values, x[a:b] = v / np.put store in place'
)


def _content(st, v):
    if isinstance(v, Ref):
        c = st.content(v)
        if isinstance(c, ArrC):
            return c
        if isinstance(c, SeqC):
            return ArrC(c.arr, c.n, c.nans)
    return None


def np_abs(ex, st, args, kw, node):
    v = args[0]
    from .symval import Arr2C
    if isinstance(v, Ref) and isinstance(st.content(v), Arr2C):
        from .symex import _abs
        return _abs(ex, st, args, kw, node)
    if isinstance(v, (tuple, list)):
        return tuple(np_abs(ex, st, [x], kw, node) for x in v)
    c = _content(st, v)
    if c is not None:
        return ex.arr_unary(lambda x: NR(z3.If(x.val >= 0, x.val, -x.val), x.nan), c, st)
    x = as_real(v)
    return NR(z3.If(x.val >= 0, x.val, -x.val), x.nan)


def np_isnan(ex, st, args, kw, node):
    v = args[0]
    c = _content(st, v)
    if c is not None:
        k = fresh('k', I)
        # boolean array: represented as 0/1 array whose "truth" is the nan flag
        return st.new_ref(ArrC(z3.Lambda([k], z3.If(c.nan_at(k), z3.RealVal(1), z3.RealVal(0))), c.n, None, kind='bool'), 'isnan')
    x = as_real(v)
    return x.nanz()


def np_argmax(ex, st, args, kw, node):
    """index k of a maximal element; NaN counts as maximal (numpy propagates NaN)"""
    c = _content(st, args[0])
    if c is None:
        raise Unsupported('argmax of non-array')
    k = fresh('argmax', I)
    j = fresh('j', I)
    st.assume(z3.Implies(c.n > 0, z3.And(k >= 0, k < c.n)))
    anynan = z3.Exists([j], z3.And(j >= 0, j < c.n, c.nan_at(j)))
    st.assume(z3.Implies(anynan, c.nan_at(k)))
    st.assume(z3.Implies(z3.Not(anynan), z3.ForAll([j], z3.Implies(z3.And(j >= 0, j < c.n), c.vals[j] <= c.vals[k]))))
    return k


def np_max(ex, st, args, kw, node):
    c = _content(st, args[0])
    if c is None and isinstance(args[0], (tuple, list)) or (isinstance(args[0], Ref) and isinstance(st.content(args[0]), ListC)):
        items = args[0] if isinstance(args[0], (tuple, list)) else st.content(args[0]).items
        res = as_real(items[0])
        for it in items[1:]:
            x = as_real(it)
            res = NR(z3.If(x.val > res.val, x.val, res.val), zor(x.nan, res.nan))   # numpy: NaN propagates
        return res
    if c is None:
        return as_real(args[0])
    k = np_argmax(ex, st, args, kw, node)
    return c.at(k)


def np_min(ex, st, args, kw, node):
    """minimum of a 1-D array without NaN tracking (an index k of a minimal element)"""
    c = _content(st, args[0])
    if c is None:
        return as_real(args[0])
    if c.nans is not None:
        raise Unsupported('np.min of a NaN-tracked array')
    k, j = fresh('argmin', I), fresh('j', I)
    st.assume(z3.Implies(c.n > 0, z3.And(k >= 0, k < c.n)))
    st.assume(z3.ForAll([j], z3.Implies(z3.And(j >= 0, j < c.n), c.vals[j] >= c.vals[k])))
    return c.at(k)


def np_deg2rad(ex, st, args, kw, node):
    x = as_real(args[0])
    return NR(x.val * z3.Real('pi') / 180, x.nan)


def np_array(ex, st, args, kw, node):
    v = args[0]
    c = _content(st, v)
    if c is not None:
        return st.new_ref(ArrC(c.vals, c.n, c.nans), 'np.array')
    if isinstance(v, Ref) and isinstance(st.content(v), ListC):
        items = st.content(v).items
        vals = z3.K(I, z3.RealVal(0))
        nans = None
        for i, it in enumerate(items):
            x = as_real(it)
            vals = z3.Store(vals, i, x.val)
            if x.nan is not False:
                nans = z3.Store(nans if nans is not None else z3.K(I, z3.BoolVal(False)), i, x.nanz())
        return st.new_ref(ArrC(vals, z3.IntVal(len(items)), nans), 'np.array')
    return as_real(v)


def np_ravel(ex, st, args, kw, node):
    return args[0]


import itertools as _it
_put_counter = _it.count()


def np_put(ex, st, args, kw, node):
    """np.put(a, ind, v): a[ind] = v for scalar ind (array ind: sequential stores, last wins -- only scalar here)"""
    a, ind, v = args[0], args[1], args[2]
    c = st.content(a)
    if not isinstance(c, ArrC):
        raise Unsupported('np.put target')
    if isinstance(ind, Ref):
        # index array: sequential stores a[ind[k]] = v[k] (k ascending, the last store to an index wins); v is a scalar or an
        # array of the same length as ind (numpy would repeat a shorter v cyclically: not modelled)
        ic = st.content(ind)
        if not isinstance(ic, ArrC) or c.nans is not None:
            raise Unsupported('np.put index array')
        vc = st.content(v) if isinstance(v, Ref) else None
        if vc is not None and (not isinstance(vc, ArrC) or vc.nans is not None):
            raise Unsupported('np.put values')
        if vc is not None:
            ex.oblige(st, 'np.put:values-and-indices-have-equal-length(cyclic-repetition-not-modelled)', vc.n == ic.n, {})
        k, k2, j = fresh('k', I), fresh('k2', I), fresh('j', I)
        if getattr(ex.c, 'check_bounds', True):
            ex.oblige(st, 'index-in-bounds[np.put]', z3.ForAll([k], z3.Implies(z3.And(k >= 0, k < ic.n), z3.And(z3.ToInt(ic.vals[k]) >= 0, z3.ToInt(ic.vals[k]) < c.n))),
                      {'kind': 'IndexError'})
        out = fresh('put', z3.ArraySort(I, R))
        wit = z3.Function('put_w!%d' % next(_put_counter), I, I)
        val = (lambda kk: vc.vals[kk]) if vc is not None else (lambda kk, x=as_real(v).val: x)
        st.assume(z3.ForAll([k], z3.Implies(z3.And(k >= 0, k < ic.n, z3.ForAll([k2], z3.Implies(z3.And(k2 > k, k2 < ic.n), ic.vals[k2] != ic.vals[k]))),
                                            out[z3.ToInt(ic.vals[k])] == val(k))))
        st.assume(z3.ForAll([j], z3.Or(out[j] == c.vals[j], z3.And(wit(j) >= 0, wit(j) < ic.n, z3.ToInt(ic.vals[wit(j)]) == j))))
        st.set_content(a, ArrC(out, c.n, None, kind=c.kind))
        return None
    x = as_real(v)
    i = to_z3(ind)
    nans = None if (c.nans is None and x.nan is False) else z3.Store(
        c.nans if c.nans is not None else z3.K(I, z3.BoolVal(False)), i, x.nanz())
    st.set_content(a, ArrC(z3.Store(c.vals, i, x.val), c.n, nans))
    return None


def np_arange(ex, st, args, kw, node):
    """np.arange(lo, hi[, step]) for integer arguments with step >= 1: element k = lo + k*step, length ceil((hi-lo)/step)"""
    if len(args) == 1:
        lo, hi, step = z3.IntVal(0), to_z3(args[0]), z3.IntVal(1)
    else:
        lo, hi = to_z3(args[0]), to_z3(args[1])
        step = to_z3(args[2]) if len(args) > 2 else z3.IntVal(1)
    if not all(z3.is_int(x) for x in (lo, hi, step)):
        raise Unsupported('np.arange with non-integer arguments')
    n = fresh('arange.len', I)
    st.assume(z3.And(n >= 0, z3.Implies(hi <= lo, n == 0)))
    st.assume(z3.Implies(z3.And(hi > lo, step >= 1), z3.And(lo + (n - 1) * step < hi, lo + n * step >= hi)))
    k = fresh('k', I)
    return st.new_ref(ArrC(z3.Lambda([k], z3.ToReal(lo + k * step)), n, None, kind='int'), 'arange')


def np_zeros(ex, st, args, kw, node):
    n = args[0]
    return st.new_ref(ArrC(z3.K(I, z3.RealVal(0)), to_z3(n) if not isinstance(n, int) else z3.IntVal(n), None), 'zeros')


def np_ones(ex, st, args, kw, node):
    n = args[0]
    return st.new_ref(ArrC(z3.K(I, z3.RealVal(1)), to_z3(n) if not isinstance(n, int) else z3.IntVal(n), None), 'ones')


def np_concatenate(ex, st, args, kw, node):
    """np.concatenate((a, b, ...)) of 1-D arrays: the parts one after the other"""
    parts = args[0]
    if isinstance(parts, Ref) and isinstance(st.content(parts), ListC):
        parts = tuple(st.content(parts).items)
    if not isinstance(parts, tuple) or not parts:
        raise Unsupported('np.concatenate of a symbolic collection')
    cs = [_content(st, p_) for p_ in parts]
    if any(c is None or c.nans is not None for c in cs):
        raise Unsupported('np.concatenate operands')
    k = fresh('k', I)
    off = z3.IntVal(0)
    total = z3.IntVal(0)
    for c in cs:
        total = total + c.n
    expr = cs[-1].vals[k - (total - cs[-1].n)]
    offs = []
    for c in cs:
        offs.append(off)
        off = off + c.n
    for c, o in reversed(list(zip(cs[:-1], offs[:-1]))):
        expr = z3.If(k < o + c.n, c.vals[k - o], expr)
    kind = cs[0].kind if all(c.kind == cs[0].kind for c in cs) else None
    return st.new_ref(ArrC(z3.Lambda([k], expr), total, None, kind=kind), 'concatenate')


def np_zeros_like(ex, st, args, kw, node):
    c = _content(st, args[0])
    return st.new_ref(ArrC(z3.K(I, z3.RealVal(0)), c.n, None), 'zeros_like')


def np_ones_like(ex, st, args, kw, node):
    c = _content(st, args[0])
    return st.new_ref(ArrC(z3.K(I, z3.RealVal(1)), c.n, None), 'ones_like')


def _elementwise_cmp(op):
    def f(ex, st, args, kw, node):
        a, b = args[0], args[1]
        ca, cb = _content(st, a), _content(st, b)
        if ca is None and cb is None:
            return ex.compare(op, a, b, st)
        n = ca.n if ca is not None else cb.n
        k = fresh('k', I)
        x = ca.at(k) if ca is not None else as_real(a)
        y = cb.at(k) if cb is not None else as_real(b)
        c = ex.compare(op, x, y, st)
        return st.new_ref(ArrC(z3.Lambda([k], z3.If(zb(c), z3.RealVal(1), z3.RealVal(0))), n, None, kind='bool'), 'cmp')
    return f


def _logical(kind):
    def f(ex, st, args, kw, node):
        cs = [_content(st, a) for a in args]
        if all(c is None for c in cs):
            ts = [ex.truth(a, st) for a in args]
            return {'and': zand, 'or': zor}[kind](*ts) if kind != 'not' else znot(ts[0])
        n = [c.n for c in cs if c is not None][0]
        k = fresh('k', I)
        ts = []
        for a, c in zip(args, cs):
            if c is not None:
                ts.append(z3.Or(c.nan_at(k), c.vals[k] != 0))
            else:
                ts.append(zb(ex.truth(a, st)))
        r = z3.And(*ts) if kind == 'and' else z3.Or(*ts) if kind == 'or' else z3.Not(ts[0])
        return st.new_ref(ArrC(z3.Lambda([k], z3.If(r, z3.RealVal(1), z3.RealVal(0))), n, None, kind='bool'), 'logical')
    return f


def np_any(ex, st, args, kw, node):
    c = _content(st, args[0])
    if c is None:
        return ex.truth(args[0], st)
    k = fresh('k', I)
    return z3.Exists([k], z3.And(k >= 0, k < c.n, z3.Or(c.nan_at(k), c.vals[k] != 0)))


def np_all(ex, st, args, kw, node):
    c = _content(st, args[0])
    if c is None:
        return ex.truth(args[0], st)
    k = fresh('k', I)
    return z3.ForAll([k], z3.Implies(z3.And(k >= 0, k < c.n), z3.Or(c.nan_at(k), c.vals[k] != 0)))


def np_sum(ex, st, args, kw, node):
    c = _content(st, args[0])
    if c is None:
        return as_real(args[0])
    nlit = z3.simplify(c.n)
    if z3.is_int_value(nlit) and nlit.as_long() <= 8:
        acc = z3.RealVal(0)
        nan = False
        for i in range(nlit.as_long()):
            acc = acc + c.vals[i]
            nan = zor(nan, c.nan_at(i)) if c.nans is not None else nan
        return NR(acc, nan)
    raise Unsupported('np.sum over a symbolic length needs a pack-specific contract')


def np_where(ex, st, args, kw, node):
    if len(args) == 3:
        # np.where(cond, a, b): element-wise selection (a, b arrays of the same length or scalars)
        cc = _content(st, args[0])
        if cc is None or cc.nans is not None:
            raise Unsupported('np.where condition')
        ca, cb = _content(st, args[1]), _content(st, args[2])
        if any(c is not None and c.nans is not None for c in (ca, cb)):
            raise Unsupported('np.where over NaN-tracked arrays')
        k = fresh('k', I)
        x = ca.vals[k] if ca is not None else as_real(args[1]).val
        y = cb.vals[k] if cb is not None else as_real(args[2]).val
        return st.new_ref(ArrC(z3.Lambda([k], z3.If(cc.vals[k] != 0, x, y)), cc.n, None), 'where')
    if len(args) != 1:
        raise Unsupported('np.where with two arguments')
    return ('where-mask', args[0])


def np_count_nonzero(ex, st, args, kw, node):
    raise Unsupported('np.count_nonzero needs a pack-specific contract')


def value_any(ex, st, args, kw, node):
    v = args[0]
    return ex.truth(v, st)


NUMPY = {
    'np.abs': np_abs, 'np.absolute': np_abs, 'np.isnan': np_isnan, 'np.argmax': np_argmax, 'np.max': np_max, 'np.min': np_min, 'np.deg2rad': np_deg2rad,
    'np.array': np_array, 'np.ravel': np_ravel, 'np.put': np_put, 'np.zeros': np_zeros, 'np.ones': np_ones, 'np.concatenate': np_concatenate, 'np.zeros_like': np_zeros_like,
    'np.ones_like': np_ones_like, 'np.any': np_any, 'np.all': np_all, 'np.arange': np_arange,
    'np.less': _elementwise_cmp(ast.Lt()), 'np.less_equal': _elementwise_cmp(ast.LtE()),
    'np.greater': _elementwise_cmp(ast.Gt()), 'np.greater_equal': _elementwise_cmp(ast.GtE()),
    'np.equal': _elementwise_cmp(ast.Eq()), 'np.not_equal': _elementwise_cmp(ast.NotEq()),
    'np.logical_and': _logical('and'), 'np.logical_or': _logical('or'), 'np.logical_not': _logical('not'),
    '<value>.any': value_any, '<value>.all': value_any, 'np.sum': np_sum, 'np.where': np_where,
}


# ---------------------------------------------------------------------------------------------- strings (opaque)
from .symval import TStr  # noqa: E402

_LOWER = z3.Function('str.lower', TStr.sort, TStr.sort)


def str_lower(ex, st, args, kw, node):
    v = args[0]
    if isinstance(v, str):
        return v.lower()
    return Opaque(_LOWER(v.term))


NUMPY['<value>.lower'] = str_lower


def np_isclose(ex, st, args, kw, node):
    ca, cb = _content(st, args[0]), _content(st, args[1])
    if ca is not None or cb is not None:
        # element-wise (one operand may be a scalar); NaN-tracked arrays are not supported here
        if any(c is not None and c.nans is not None for c in (ca, cb)):
            raise Unsupported('np.isclose on NaN-tracked arrays')
        rt, at = as_real(kw.get('rtol', 1e-05)).val, as_real(kw.get('atol', 1e-08)).val
        k = fresh('k', I)
        x = ca.vals[k] if ca is not None else as_real(args[0]).val
        y = cb.vals[k] if cb is not None else as_real(args[1]).val
        d_ = x - y
        cond = z3.If(d_ >= 0, d_, -d_) <= at + rt * z3.If(y >= 0, y, -y)
        n = ca.n if ca is not None else cb.n
        return st.new_ref(ArrC(z3.Lambda([k], z3.If(cond, z3.RealVal(1), z3.RealVal(0))), n, None, kind='bool'), 'isclose')
    a, b = as_real(args[0]), as_real(args[1])
    rtol = as_real(kw.get('rtol', 1e-05)).val
    atol = as_real(kw.get('atol', 1e-08)).val
    d = a.val - b.val
    absd = z3.If(d >= 0, d, -d)
    absb = z3.If(b.val >= 0, b.val, -b.val)
    return z3.And(z3.Not(a.nanz()), z3.Not(b.nanz()), absd <= atol + rtol * absb)


def np_array_equal(ex, st, args, kw, node):
    ca, cb = _content(st, args[0]), _content(st, args[1])
    if ca is None or cb is None or ca.nans is not None or cb.nans is not None:
        return fresh('array_equal', Bo)      # an operand the contract does not describe: arbitrary
    k = fresh('k', I)
    return z3.And(ca.n == cb.n, z3.ForAll([k], z3.Implies(z3.And(k >= 0, k < ca.n), ca.vals[k] == cb.vals[k])))


NUMPY['np.array_equal'] = np_array_equal
NUMPY['np.isclose'] = np_isclose
