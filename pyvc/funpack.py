"""
pyvc.funpack -- run one function contract through the symbolic executor and settle its obligations in a Pack.
"""
import time
import os
import traceback

import z3

from .externals import NUMPY, TRUSTED_NUMPY
from .smt import prove, satisfiable
from .symex import Engine, View, zb
import traceback
from .symval import ContractError, Unsupported

DROPS = 'docstrings, type hints, logger.*/tqdm.write/print calls (pure), elapsed() timing'


import re


def base_name(name):
    return re.sub(r'@\d+$', '', name.split('#path')[0])



def run_replay(replay, *args):
    """Call a native replay harness.  A harness failure is not a verdict -- except for harnesses that drive the REAL program on stock
    inputs (attribute ``real_system``): there an exception that passes through repository code means the program crashed on an
    input it handles on the unchanged tree, which is a confirmed failure with that input."""
    try:
        return replay(*args)
    except Exception as e:      # noqa
        tb = traceback.extract_tb(e.__traceback__)
        repo = os.environ.get('VERIF_REPO', '/repo')
        in_repo = [f for f in tb if f.filename.startswith(repo + '/')]
        if getattr(replay, 'real_system', False) and in_repo:
            return {'confirmed': True, 'inputs': {'harness': getattr(replay, '__doc__', '') and replay.__doc__.strip()[:300]},
                    'observed': 'the program raised %r at %s:%d' % (e, in_repo[-1].filename, in_repo[-1].lineno),
                    'trace': traceback.format_exc()[-900:], 'native_cmd': '%s.%s' % (replay.__module__, replay.__name__)}
        return {'confirmed': False, 'error': repr(e), 'trace': traceback.format_exc()[-600:]}


def verify(pack, contract, externals=None, replay=None, witnesses=None, timeout_ms=None, repo=None):
    """Returns the Engine (or None when unsupported)."""
    ext = dict(NUMPY)
    ext.update(externals or {})
    pack.trust(TRUSTED_NUMPY)
    t0 = time.time()
    try:
        ex = Engine(contract, ext, repo)
        obls = ex.run()
    except Exception as e:      # noqa: Unsupported, or the code reads/calls something the contract does not describe
        if not isinstance(e, (Unsupported, ContractError)):
            traceback.print_exc()
            e = '%s: %s (symbolic execution failed; not a verdict)' % (type(e).__name__, e)
        name = contract.oname + '/in-subset'
        pack.add({'name': name, 'verdict': 'unknown', 'backend': 'symex', 'time_s': time.time() - t0, 'model': None,
                  'smt2': None, 'meta': {}, 'note': 'unsupported: %s' % e})
        conf = None
        if replay is not None:
            # no verification conditions could be generated: the native replay harness of this contract may still exhibit
            # a failing input on the real code (only a confirmed one is reported as a violation)
            conf = run_replay(replay, name, {}, {})
        if conf and conf.get('confirmed'):
            pack.violation(name, {'solver': 'none', 'solver_output': 'function left the verified subset: %s' % e,
                                  'function': contract.qualname, 'file': contract.file, 'native': conf})
        else:
            pack.undecided_obl(name, 'function left the verified subset: %s' % e)
        pack.add_function(contract.qualname, contract.file, obligations=0, dropped=DROPS)
        return None
    if not obls:
        pack.vacuity['failed'].append('%s: zero obligations' % contract.oname)
    # vacuity: at least one exit path must be reachable
    reach = [satisfiable(s.pc, 3000) for s, _, _ in ex.exits]
    pack.vacuity['sat_checks'] += len(reach)
    if ex.exits and all(r == 'unsat' for r in reach):
        pack.vacuity['failed'].append('%s: no reachable exit (contradictory requires/invariants)' % contract.oname)
    reported = set()     # base names already reported as violation / known finding / undecided
    n = 0
    viol0 = len(pack.violations)
    for name, hyps, goal, meta in obls:
        r = prove(name, hyps, goal, meta={k: v for k, v in meta.items() if isinstance(v, (str, int, float, bool))},
                  timeout_ms=timeout_ms, keep_smt2=(n < 1))
        n += 1
        d = r.as_dict()
        if d.get('smt2'):
            d['smt2'] = d['smt2'][:1500]
        if d['verdict'] == 'proved':
            pack.add(d)
            continue
        bname = base_name(name)
        known = [k for k in pack.known if k.get('obligation') == bname]
        if d['verdict'] == 'refuted':
            if known:
                wconds = []
                for k in known:
                    wfn = (witnesses or {}).get(k.get('id'))
                    if wfn is not None:
                        wconds.append((k, zb(wfn(meta.get('_old'), meta.get('_new')))))
                if wconds:
                    # prove the obligation outside every listed witness; confirm that it still fails inside
                    outside = prove(name + '/outside-witness', hyps + [z3.Not(w) for _, w in wconds], goal,
                                    timeout_ms=timeout_ms)
                    if outside.verdict == 'proved':
                        d.setdefault('meta', {})['known_finding'] = True
                        pack.add(d)
                        for k, w in wconds:
                            if satisfiable(hyps + [w, z3.Not(goal)], 3000) != 'unsat':
                                pack.known_finding(k)
                        continue
                    # fails outside the witness too: a different violation of the same obligation
                elif not witnesses:
                    d.setdefault('meta', {})['known_finding'] = True
                    pack.add(d)
                    for k in known:
                        pack.known_finding(k)
                    continue
            pack.add(d)
            if bname in reported:
                continue
            reported.add(bname)
            payload = {'solver': d['backend'], 'model': d['model'], 'function': contract.qualname, 'file': contract.file,
                       'source_sha256': ex.sha, 'obligation_kind': name.split('/')[-1], 'first_failing_path': name}
            conf = None
            if replay is not None:
                conf = run_replay(replay, bname, d['model'] or {}, meta)
            if conf:
                payload['native'] = conf
            if conf and conf.get('confirmed'):
                pack.violation(bname, payload)
            else:
                payload['solver_output'] = 'sat: hyps /\\ not goal has the model above'
                pack.violation(bname, payload, no_input=True)
        else:
            if known and witnesses:
                # undecided as a whole, but listed as failing inside a witness: decide it outside the witness
                wconds = [(k, zb((witnesses or {})[k.get('id')](meta.get('_old'), meta.get('_new')))) for k in known
                          if (witnesses or {}).get(k.get('id')) is not None]
                if wconds:
                    outside = prove(name + '/outside-witness', hyps + [z3.Not(w) for _, w in wconds], goal, timeout_ms=timeout_ms)
                    if outside.verdict == 'proved':
                        d.setdefault('meta', {})['known_finding'] = True
                        d['note'] = 'proved outside the listed witness; inside it the finding is replayed natively'
                        pack.add(d)
                        for k, w in wconds:
                            pack.known_finding(k)
                        continue
            pack.add(d)
            if bname not in reported:
                reported.add(bname)
                conf = None
                if replay is not None:
                    # the solver left the obligation open: a native run of the real function over the replay
                    # harness's own inputs may still exhibit a failing input (only a confirmed one is reported)
                    conf = run_replay(replay, bname, {}, meta)
                if conf and conf.get('confirmed'):
                    pack.violation(bname, {'solver': d['backend'], 'solver_output': 'unknown (%s)' % d.get('note', ''),
                                           'function': contract.qualname, 'file': contract.file, 'source_sha256': ex.sha,
                                           'obligation_kind': name.split('/')[-1], 'native': conf})
                else:
                    pack.undecided_obl(bname, d.get('note', ''))
    if getattr(ex, 'gone_loops', None) and len(pack.violations) == viol0:
        # a loop the contract states per-iteration obligations for is gone and nothing else failed: those obligations were never
        # generated, so the pass would be vacuous -- the function counts as having left the verified subset
        name = contract.oname + '/in-subset'
        pack.add({'name': name, 'verdict': 'unknown', 'backend': 'symex', 'time_s': 0.0, 'model': None, 'smt2': None, 'meta': {},
                  'note': 'unsupported: %s' % ex.gone_loops})
        conf = run_replay(replay, name, {}, {}) if replay is not None else None
        if conf and conf.get('confirmed'):
            pack.violation(name, {'solver': 'none', 'solver_output': 'function left the verified subset: %s' % ex.gone_loops,
                                  'function': contract.qualname, 'file': contract.file, 'native': conf})
        else:
            pack.undecided_obl(name, 'function left the verified subset: %s' % ex.gone_loops)
    pack.add_function(contract.qualname, contract.file, obligations=len(obls), paths=ex.npaths, sha=ex.sha, dropped=DROPS)
    return ex
