"""./check driver: dispatch to the contract pack of one property."""
import argparse
import importlib
import json
import os
import sys

from .report import run_pack, ROOT


def main():
    ap = argparse.ArgumentParser()
    ap.add_argument('pid')
    ap.add_argument('--tier', default=os.environ.get('VERIF_TIER', 'quick'), choices=['quick', 'thorough'])
    ap.add_argument('--seed', type=int, default=int(os.environ.get('VERIF_SEED', '0') or 0))
    ap.add_argument('--replay', default=None)
    a = ap.parse_args()
    sys.path.insert(0, ROOT)
    try:
        mod = importlib.import_module('contracts.' + a.pid)
    except ModuleNotFoundError as e:
        print('no contract pack for %s (%s)' % (a.pid, e))
        sys.exit(3)
    if a.replay:
        with open(a.replay) as f:
            payload = json.load(f)
        fn = getattr(mod, 'replay', None)
        if fn is None:
            print(json.dumps(payload, indent=1))
            sys.exit(0)
        sys.exit(fn(payload))
    rc = run_pack(mod.run, a.pid, a.tier, a.seed)
    if a.tier == 'thorough' and not os.environ.get('VERIF_SELFTEST') and not os.environ.get('VERIF_NO_SELFTEST'):
        if rc == 0:
            selftest(a.pid)          # informational: recorded in the evidence, never changes the verdict
    sys.exit(rc)


def selftest(pid):
    """thorough tier: the deliberate breakages of selftest/mutations.json that belong to this property are applied to scratch
    copies of the tree and should each be reported by this very check (guards against contracts that prove too little).  The
    outcome is recorded in the evidence and printed; it never changes the exit code (a solver timeout in one of the scratch runs on a
    busy machine must not turn a held property into a failed check)."""
    import tools_selftest
    res = tools_selftest.run([pid])
    missed = [r for r in res if r['result'] not in ('detected', 'not-applicable')]
    evdir = os.environ.get('VERIF_EVIDENCE_DIR') or os.path.join(ROOT, 'evidence')
    path = os.path.join(evdir, pid + '.json')
    try:
        with open(path) as f:
            ev = json.load(f)
        ev['coverage']['selftest'] = {'mutations': len(res), 'detected': len(res) - len(missed),
                                      'undetected': [r['id'] for r in missed],
                                      'what': 'deliberate breakages (reverted fix: commits and one-line mutations) applied to scratch '
                                              'copies of the tree; each must make this check exit 1'}
        with open(path, 'w') as f:
            json.dump(ev, f, indent=1, default=str)
    except Exception as e:      # noqa
        print('selftest: could not record the result (%r)' % (e,))
    print('SELFTEST %s: %d deliberate breakages, %d detected%s' % (pid, len(res), len(res) - len(missed),
                                                                   ('; undetected: %s' % [r['id'] for r in missed]) if missed else ''))
    return 0


if __name__ == '__main__':
    main()
