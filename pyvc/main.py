"""./check driver: dispatch to the contract pack of one property."""
import argparse
import importlib
import json
import os
import sys

from .report import run_pack, ROOT


def main():
    ap = argparse.ArgumentParser()
    ap.add_argument('pid')
    ap.add_argument('--tier', default=os.environ.get('VERIF_TIER', 'quick'), choices=['quick', 'thorough'])
    ap.add_argument('--seed', type=int, default=int(os.environ.get('VERIF_SEED', '0') or 0))
    ap.add_argument('--replay', default=None)
    a = ap.parse_args()
    sys.path.insert(0, ROOT)
    try:
        mod = importlib.import_module('contracts.' + a.pid)
    except ModuleNotFoundError as e:
        print('no contract pack for %s (%s)' % (a.pid, e))
        sys.exit(3)
    if a.replay:
        with open(a.replay) as f:
            payload = json.load(f)
        fn = getattr(mod, 'replay', None)
        if fn is None:
            print(json.dumps(payload, indent=1))
            sys.exit(0)
        sys.exit(fn(payload))
    sys.exit(run_pack(mod.run, a.pid, a.tier, a.seed))


if __name__ == '__main__':
    main()
