"""
pyvc.numeval -- native (float/complex) evaluation of an expression AST in the SymPy or NumPy dialect.
Used only for *replay* of solver counter-models and for the bounded stand-in on ledger obligations;
it never decides an obligation as proved.
"""
import ast
import cmath
import math


class NumUnsupported(Exception):
    pass


def _b(x):
    return bool(x)


def ev(n, env, subs=None, _stack=()):
    subs = subs or {}
    if isinstance(n, ast.Expression):
        return ev(n.body, env, subs, _stack)
    if isinstance(n, ast.Constant):
        return n.value
    if isinstance(n, ast.Name):
        if n.id in env:
            return env[n.id]
        if n.id in subs and n.id not in _stack:
            return ev(subs[n.id], env, subs, _stack + (n.id,))
        if n.id == 'pi':
            return math.pi
        if n.id == 'nan':
            return float('nan')
        if n.id == 'I':
            return 1j
        raise NumUnsupported('name ' + n.id)
    if isinstance(n, ast.UnaryOp):
        a = ev(n.operand, env, subs, _stack)
        if isinstance(n.op, ast.USub):
            return -a
        if isinstance(n.op, ast.UAdd):
            return +a
        return not _b(a)
    if isinstance(n, ast.BoolOp):
        vals = [_b(ev(v, env, subs, _stack)) for v in n.values]
        return all(vals) if isinstance(n.op, ast.And) else any(vals)
    if isinstance(n, ast.Compare):
        a = ev(n.left, env, subs, _stack)
        b = ev(n.comparators[0], env, subs, _stack)
        op = n.ops[0]
        return {ast.Lt: a < b, ast.LtE: a <= b, ast.Gt: a > b, ast.GtE: a >= b, ast.Eq: a == b,
                ast.NotEq: a != b}[type(op)]
    if isinstance(n, ast.BinOp):
        a, b = ev(n.left, env, subs, _stack), ev(n.right, env, subs, _stack)
        if isinstance(n.op, ast.BitAnd):
            return _b(a) and _b(b)
        if isinstance(n.op, ast.BitOr):
            return _b(a) or _b(b)
        a = a + 0 if isinstance(a, bool) else a
        b = b + 0 if isinstance(b, bool) else b
        try:
            if isinstance(n.op, ast.Add):
                return a + b
            if isinstance(n.op, ast.Sub):
                return a - b
            if isinstance(n.op, ast.Mult):
                return a * b
            if isinstance(n.op, ast.Div):
                return a / b
            if isinstance(n.op, ast.Pow):
                return a ** b
        except ZeroDivisionError:
            return float('nan')
        raise NumUnsupported(type(n.op).__name__)
    if isinstance(n, (ast.Tuple, ast.List)):
        return [ev(e, env, subs, _stack) for e in n.elts]
    if isinstance(n, ast.Call):
        f = ast.unparse(n.func)
        a = n.args
        E = lambda x: ev(x, env, subs, _stack)  # noqa
        if f == 'Indicator':
            return E(a[0])
        rel = {'Le': '<=', 'Lt': '<', 'Ge': '>=', 'Gt': '>', 'Eq': '==', 'Ne': '!=', 'less_equal': '<=', 'less': '<',
               'greater_equal': '>=', 'greater': '>', 'equal': '==', 'not_equal': '!='}
        if f in rel:
            x, y = E(a[0]), E(a[1])
            return {'<=': x <= y, '<': x < y, '>=': x >= y, '>': x > y, '==': x == y, '!=': x != y}[rel[f]]
        if f in ('logical_and', 'And'):
            return all(_b(E(x)) for x in a)
        if f in ('logical_or', 'Or'):
            return any(_b(E(x)) for x in a)
        if f in ('logical_not', 'Not'):
            return not _b(E(a[0]))
        if f == 'logical_and.reduce':
            return all(_b(x) for x in E(a[0]))
        if f == 'logical_or.reduce':
            return any(_b(x) for x in E(a[0]))
        if f == 'Piecewise':
            for arm in a:
                if _b(E(arm.elts[1])):
                    return E(arm.elts[0])
            return float('nan')
        if f == 'select':
            conds, vals = E(a[0]), E(a[1])
            kw = {k.arg: k.value for k in n.keywords}
            for c, v in zip(conds, vals):
                if _b(c):
                    return v
            return E(kw['default']) if 'default' in kw else 0
        one = {'sin': cmath.sin, 'cos': cmath.cos, 'tan': cmath.tan, 'exp': cmath.exp, 'log': cmath.log, 'ln': cmath.log,
               'atan': cmath.atan, 'arctan': cmath.atan, 'asin': cmath.asin, 'arcsin': cmath.asin,
               'acos': cmath.acos, 'arccos': cmath.acos, 'sqrt': cmath.sqrt}
        if f in one:
            x = E(a[0])
            x = x + 0 if isinstance(x, bool) else x
            try:
                if isinstance(x, complex):
                    return one[f](x)
                r = one[f](x)
                return r.real if abs(r.imag) == 0 else float('nan')
            except (ValueError, ZeroDivisionError):
                return float('nan')
        if f in ('atan2', 'arctan2'):
            return math.atan2(E(a[0]), E(a[1]))
        if f in ('abs', 'Abs'):
            return abs(E(a[0]))
        if f == 'sign':
            x = E(a[0])
            return (x > 0) - (x < 0)
        if f in ('re', 'real'):
            return complex(E(a[0])).real
        if f in ('im', 'imag'):
            return complex(E(a[0])).imag
        if f in ('conj', 'conjugate'):
            x = E(a[0])
            return x.conjugate() if isinstance(x, complex) else x
        if f in ('arg', 'angle'):
            return cmath.phase(complex(E(a[0])))
        if f == 'rad' or f == 'radians':
            return E(a[0]) * math.pi / 180
        if f == 'safe_div':
            x, y = E(a[0]), E(a[1])
            return x / y if y != 0 else 0.0
        if f in ('Max', 'maximum'):
            return max(E(a[0]), E(a[1]))
        if f in ('Min', 'minimum'):
            return min(E(a[0]), E(a[1]))
        if f == 'array':
            return E(a[0])
        raise NumUnsupported('function ' + f)
    raise NumUnsupported(type(n).__name__)


def flat(x):
    if isinstance(x, (list, tuple)):
        out = []
        for i in x:
            out.extend(flat(i))
        return out
    try:
        import numpy as np
        if isinstance(x, np.ndarray):
            return flat(x.tolist())
    except ImportError:
        pass
    return [x]


def close(a, b, rtol=1e-7, atol=1e-9):
    a, b = complex(a), complex(b)
    if a != a and b != b:
        return True
    if a != a or b != b:
        return False
    if cmath.isinf(a) or cmath.isinf(b):
        return a == b
    return abs(a - b) <= atol + rtol * max(abs(a), abs(b))
