"""
pyvc.smt -- discharge of named obligations.

An obligation is ``hyps |- goal``; it is *discharged* when ``hyps ∧ ¬goal`` is unsat.
z3 (python API) is tried first; on ``unknown`` the query is printed as SMT-LIB 2 and given to
the cvc5 binary (and, for nonlinear real queries, to z3's ``qfnra-nlsat`` tactic).
Verdicts: 'proved' | 'refuted' (with model) | 'unknown'.
"""
import os
import shutil
import subprocess
import tempfile
import time

import z3

CVC5 = shutil.which('cvc5') or '/usr/bin/cvc5'
Z3_MS = int(os.environ.get('VERIF_Z3_MS', '6000'))
CVC5_S = int(os.environ.get('VERIF_CVC5_S', '10'))
# the nonlinear-real stage needs up to ~5 s on an idle machine for the Line balance obligations; the wall-clock budget is sized so
# that the verdict does not flip when all cores are busy
NLSAT_MS = int(os.environ.get('VERIF_NLSAT_MS', '40000'))


class Result:
    __slots__ = ('name', 'verdict', 'backend', 'time', 'model', 'smt2', 'meta', 'note')

    def __init__(self, name, verdict, backend, t, model=None, smt2=None, meta=None, note=''):
        self.name, self.verdict, self.backend, self.time = name, verdict, backend, t
        self.model, self.smt2, self.meta, self.note = model, smt2, meta or {}, note

    def as_dict(self):
        return {'name': self.name, 'verdict': self.verdict, 'backend': self.backend,
                'time_s': round(self.time, 4), 'model': self.model, 'smt2': self.smt2,
                'meta': self.meta, 'note': self.note}


def model_to_dict(m):
    out = {}
    for d in m.decls():
        if d.arity() == 0:
            v = m[d]
            out[d.name()] = _val(v)
    return out


def _val(v):
    if z3.is_rational_value(v):
        return str(v.as_fraction())
    if z3.is_algebraic_value(v):
        return v.as_decimal(20).rstrip('?')
    if z3.is_int_value(v):
        return str(v.as_long())
    if z3.is_true(v):
        return True
    if z3.is_false(v):
        return False
    return str(v)


def _cvc5(smt2, timeout_s, logic=None):
    if not os.path.exists(CVC5):
        return 'unknown'
    with tempfile.NamedTemporaryFile('w', suffix='.smt2', delete=False) as f:
        if logic:
            f.write('(set-logic %s)\n' % logic)
        f.write(smt2)
        if '(check-sat)' not in smt2:
            f.write('\n(check-sat)\n')
        path = f.name
    try:
        p = subprocess.run([CVC5, '--tlimit=%d' % (timeout_s * 1000), '--strings-exp', path],
                           capture_output=True, text=True, timeout=timeout_s + 5)
        out = p.stdout.strip().splitlines()
        return out[0] if out and out[0] in ('sat', 'unsat') else 'unknown'
    except Exception:
        return 'unknown'
    finally:
        os.unlink(path)


def prove(name, hyps, goal, meta=None, timeout_ms=None, keep_smt2=False, want_model=True, use_cvc5=True):
    """Try to prove ``And(hyps) -> goal``.  Strategy: z3 default (short) -> z3 nlsat tactic -> z3 default (full) -> cvc5."""
    timeout_ms = timeout_ms or Z3_MS
    t0 = time.time()
    neg = z3.Not(goal)

    def mk(solver, ms):
        solver.set('timeout', ms)
        for h in hyps:
            solver.add(h)
        solver.add(neg)
        return solver

    s = mk(z3.Solver(), min(1500, timeout_ms))
    smt2 = s.to_smt2() if keep_smt2 else None

    def done(verdict, backend, solver=None, note=''):
        model = None
        if verdict == 'refuted' and want_model and solver is not None:
            try:
                model = model_to_dict(solver.model())
            except z3.Z3Exception:
                model = None
        return Result(name, verdict, backend, time.time() - t0, model=model, smt2=smt2, meta=meta, note=note)

    r = s.check()
    if r == z3.unsat:
        return done('proved', 'z3')
    if r == z3.sat:
        return done('refuted', 'z3', s)
    try:
        s2 = mk(z3.Then('simplify', 'solve-eqs', 'purify-arith', 'qfnra-nlsat').solver(), max(timeout_ms, NLSAT_MS))
        r2 = s2.check()
        if r2 == z3.unsat:
            return done('proved', 'z3-nlsat')
        if r2 == z3.sat:
            return done('refuted', 'z3-nlsat', s2)
    except z3.Z3Exception:
        pass
    if timeout_ms > 1500:
        s3 = mk(z3.Solver(), timeout_ms)
        r3 = s3.check()
        if r3 == z3.unsat:
            return done('proved', 'z3')
        if r3 == z3.sat:
            return done('refuted', 'z3', s3)
    if use_cvc5:
        txt = s.to_smt2()
        r4 = _cvc5(txt, CVC5_S)
        if r4 == 'unsat':
            return done('proved', 'cvc5')
        if r4 == 'sat':
            return done('refuted', 'cvc5', None, note='cvc5 sat (no model extracted)')
    return done('unknown', 'z3+cvc5', None, note=s.reason_unknown())


def satisfiable(hyps, timeout_ms=5000):
    """vacuity guard: are the hypotheses jointly satisfiable?  returns 'sat' | 'unsat' | 'unknown'"""
    s = z3.Solver()
    s.set('timeout', timeout_ms)
    for h in hyps:
        s.add(h)
    return str(s.check())


def smt2_head(hyps, goal, maxlen=1500):
    s = z3.Solver()
    for h in hyps:
        s.add(h)
    s.add(z3.Not(goal))
    txt = s.to_smt2()
    return txt if len(txt) <= maxlen else txt[:maxlen] + ' ...[truncated]'
