"""
pyvc.symex -- forward symbolic execution of real Python function bodies against sidecar contracts.

The function is located by (file, qualified name) in the *current* source of /repo with ``ast`` on every run.
Dropped by extraction (and nothing else): docstrings, type hints, ``logger.*`` / ``tqdm.write`` / ``print`` calls
(treated as pure and non-raising), ``elapsed()`` timing.  Anything outside the subset raises ``Unsupported`` and the
function is reported UNDECIDED (never a violation).

Calls are never inlined: a call is replaced by the callee's contract handler (pre asserted, frame havoced, post
assumed).  Loops are cut by invariants from the contract; the loop frame is checked dynamically (every location
written by the body must be in the declared loop frame, otherwise the run is a checker error).
"""
import ast
import fnmatch
import hashlib
import os
import time

import z3

from .symval import Mark
from .symval import (Arr2C, Coll, LocalFunc, MapC, NR, RowDictC, ArrC, ContractError, DictC, ExcVal, Func, I, ListC, MaybeNone, Method, Module, Obj, Opaque,
                     R, Bo, Ref, SeqC, Sort, State, TStr, Unsupported, fresh, rv)
from .report import REPO

# ---------------------------------------------------------------------------------------------- source extraction


def find_function(file, qualname, repo=None):
    path = os.path.join(repo or os.environ.get('VERIF_REPO', REPO), file)
    src = open(path).read()
    tree = ast.parse(src)
    parts = qualname.split('.')
    node = tree
    for p in parts:
        found = None
        for n in ast.walk(node) if node is tree else node.body:
            if isinstance(n, (ast.FunctionDef, ast.ClassDef)) and n.name == p:
                if node is tree and n not in tree.body:
                    continue
                found = n
                break
        if found is None:
            raise Unsupported('%s: %s not found' % (file, qualname))
        node = found
    seg = ast.get_source_segment(src, node) or ''
    return node, hashlib.sha256(seg.encode()).hexdigest(), seg


EXC_PARENTS = {
    'KeyError': 'LookupError', 'IndexError': 'LookupError', 'LookupError': 'Exception', 'ValueError': 'Exception',
    'TypeError': 'Exception', 'ArithmeticError': 'Exception', 'ZeroDivisionError': 'ArithmeticError',
    'FloatingPointError': 'ArithmeticError', 'NotImplementedError': 'RuntimeError', 'RuntimeError': 'Exception',
    'AttributeError': 'Exception', 'NameError': 'Exception', 'ImportError': 'Exception', 'OSError': 'Exception',
    'FileNotFoundError': 'OSError', 'StopIteration': 'Exception', 'AssertionError': 'Exception',
    'Exception': 'BaseException', 'NoConvergence': 'Exception',
}


def exc_matches(cls, handler_names):
    c = cls
    while c is not None:
        if c in handler_names:
            return True
        c = EXC_PARENTS.get(c)
    return False


# ---------------------------------------------------------------------------------------------- contracts

class Loop:
    def __init__(self, inv=(), frame=(), decreases=None, summary=None, assume=(), rebind=None):
        self.rebind = dict(rebind or {})   # {local: Sort}: locals the body REBINDS to values of another size (x = f(x, ...)): arbitrary within the sort at the loop head
        self.assume = list(assume)      # [(name, fn(View))]: preconditions on the arbitrary element of an abstract collection
        self.inv = list(inv)            # [(name, fn(View) -> z3 Bool)]
        self.frame = list(frame)        # heap path patterns / 'loc:<name>' / '$name' locals the body may write
        self.decreases = decreases      # fn(View) -> z3 Int (optional)
        self.summary = summary


class Outcomes:
    """result of a call that forks: list of (condition or None, 'value'|'raise', payload)"""
    def __init__(self, items):
        self.items = items


class Contract:
    def __init__(self, file, qualname, params=None, schema=None, aliases=None, requires=(), ensures=(), raises=None,
                 modifies=(), calls=None, loops=None, globals_=None, pid='C00', ghost_init=None, static=False,
                 allow_raise=(), drop=()):
        self.file, self.qualname = file, qualname
        self.params = params or {}
        self.schema = schema or {}
        self.aliases = aliases or {}
        self.requires = list(requires)
        self.ensures = [e for e in ensures if e[0] not in drop]
        self.raises = raises or {}
        self.modifies = list(modifies)
        self.calls = calls or {}
        self.loops = loops or {}
        self.globals = globals_ or {}
        self.pid = pid
        self.ghost_init = ghost_init or {}
        self.allow_raise = list(allow_raise)

    @property
    def oname(self):
        return '%s/%s:%s' % (self.pid, self.file, self.qualname)


class View:
    """read-only access to a state for contract clauses"""
    def __init__(self, st, ex=None):
        self.st, self.ex = st, ex

    def __call__(self, path):
        return self.get(path)

    def get(self, path):
        v = self.st.load(path)
        return v

    def z(self, path):
        """scalar as z3 term (real part for floats)"""
        v = self.get(path)
        return to_z3(v)

    def nan(self, path):
        v = self.get(path)
        return v.nanz() if isinstance(v, NR) else z3.BoolVal(False)

    def arr(self, path):
        v = self.get(path)
        if isinstance(v, Ref):
            c = self.st.content(v)
            if isinstance(c, ListC):
                return list_as_seq(c)
            return c
        raise ContractError('%s is not an array/sequence' % path)

    def ref(self, path):
        return self.get(path)

    def isnone(self, path):
        v = self.get(path)
        if isinstance(v, MaybeNone):
            return v.isnone
        return z3.BoolVal(v is None)

    def ghost(self, name):
        return self.st.ghost[name]

    def local(self, name):
        return self.st.env[name]

    def local_or(self, name, default):
        return self.st.env.get(name, default)


def list_as_seq(c):
    """python list of numbers of known length as a SeqC value"""
    arr = z3.K(I, z3.RealVal(0))
    nans = z3.K(I, z3.BoolVal(False))
    for i, x in enumerate(c.items):
        r = as_real(x)
        arr = z3.Store(arr, i, r.val)
        nans = z3.Store(nans, i, r.nanz())
    return SeqC(arr, z3.IntVal(len(c.items)), nans)


def to_z3(v):
    if isinstance(v, NR):
        return v.val
    if isinstance(v, bool):
        return z3.BoolVal(v)
    if isinstance(v, int):
        return z3.IntVal(v)
    if isinstance(v, float):
        return rv(v)
    if isinstance(v, Opaque):
        return v.term
    if isinstance(v, str):
        return TStr.lit(v)
    if z3.is_expr(v):
        return v
    if isinstance(v, MaybeNone):
        return to_z3(v.value)       # used on paths where `is not None` has been established
    raise ContractError('no z3 form for %r' % (v,))


def as_real(v):
    """value -> NR"""
    if isinstance(v, NR):
        return v
    if isinstance(v, bool):
        return NR(1 if v else 0)
    if isinstance(v, (int, float)):
        if isinstance(v, float) and v != v:
            return NR(0, True)
        return NR(v)
    if z3.is_expr(v):
        if z3.is_int(v):
            return NR(z3.ToReal(v))
        if z3.is_bool(v):
            return NR(z3.If(v, z3.RealVal(1), z3.RealVal(0)))
        if z3.is_real(v):
            return NR(v)
    raise Unsupported('numeric value expected: %r' % (v,))


def is_intlike(v):
    return (isinstance(v, int) and not isinstance(v, bool)) or (z3.is_expr(v) and z3.is_int(v))


def zor(*xs):
    xs = [x for x in xs if not (isinstance(x, bool) and x is False)]
    if any(isinstance(x, bool) and x for x in xs):
        return True
    if not xs:
        return False
    return xs[0] if len(xs) == 1 else z3.Or(*xs)


def zand(*xs):
    xs = [x for x in xs if not (isinstance(x, bool) and x is True)]
    if any(isinstance(x, bool) and not x for x in xs):
        return False
    if not xs:
        return True
    return xs[0] if len(xs) == 1 else z3.And(*xs)


def znot(x):
    if isinstance(x, bool):
        return not x
    return z3.Not(x)


def zb(x):
    return z3.BoolVal(x) if isinstance(x, bool) else x


class _NoMerge(Exception):
    pass


# ---------------------------------------------------------------------------------------------- the engine

PURE_CALL_PREFIXES = ('logger.', 'logging.', 'tqdm.write', 'print', 'warnings.warn')


class Engine:
    def __init__(self, contract, externals=None, repo=None):
        self.c = contract
        self.fn, self.sha, self.src = find_function(contract.file, contract.qualname, repo)
        self.externals = externals or {}
        self.obligations = []      # (name, hyps, goal, meta)
        self.exits = []            # (state, kind, payload)
        self.npaths = 0
        self.loop_ids = {}
        self._number_loops()
        self.notes = []
        self.max_paths = 4000

    def _number_loops(self):
        k = 0
        for n in ast.walk(self.fn):
            if isinstance(n, (ast.While, ast.For)):
                self.loop_ids[id(n)] = k
                k += 1
        # ast.walk is breadth-first; renumber in source order
        loops = sorted([n for n in ast.walk(self.fn) if isinstance(n, (ast.While, ast.For))],
                       key=lambda n: (n.lineno, n.col_offset))
        self.loop_ids = {id(n): i for i, n in enumerate(loops)}

    # ------------------------------------------------------------------ obligations
    def oblige(self, st, kind, goal, meta=None):
        if isinstance(goal, bool):
            goal = z3.BoolVal(goal)
        name = '%s/%s' % (self.c.oname, kind)
        # unique names
        n = sum(1 for o in self.obligations if o[0] == name or o[0].startswith(name + '@'))
        if n:
            name = '%s@%d' % (name, n)
        meta = dict(meta or {})
        if '_new' not in meta and getattr(self, 'old', None) is not None:
            # views for known-finding witnesses on call-site / store obligations: the state at the obligation
            meta['_new'] = View(st.copy(), self)
            meta['_old'] = meta['_new']
        self.obligations.append((name, list(st.pc), goal, meta))

    def feasible(self, st, cond=None):
        s = z3.Solver()
        s.set('timeout', 400)
        for p in st.pc:
            s.add(p)
        if cond is not None:
            s.add(cond)
        return s.check() != z3.unsat

    # ------------------------------------------------------------------ top level
    def run(self):
        c = self.c
        # the contract states invariants for loops by their ordinal in the source: a loop that is gone takes its per-iteration
        # obligations with it, which would otherwise pass silently
        nloops = len(self.loop_ids)
        gone = sorted(k for k in c.loops if isinstance(k, int) and k >= nloops)
        # (decided by the caller: if the remaining obligations fail they are reported as before; if they all pass, the function is
        # treated as having left the verified subset -- see funpack.verify)
        self.gone_loops = None
        if gone and not getattr(c, 'optional_loops', False):
            self.gone_loops = 'the contract states an invariant for loop #%d; the function body has only %d loop(s)' % (gone[0], nloops)
        st = State(schema=c.schema, aliases=c.aliases)
        # parameters
        args = self.fn.args
        names = [a.arg for a in args.args] + [a.arg for a in args.kwonlyargs]
        defaults = {}
        pos = args.args
        for a, d in zip(pos[len(pos) - len(args.defaults):], args.defaults):
            defaults[a.arg] = d
        for a, d in zip(args.kwonlyargs, args.kw_defaults):
            if d is not None:
                defaults[a.arg] = d
        sliced = getattr(c, 'body_from', None) is not None or isinstance(getattr(c, 'body_to', None), str)
        for nm in names:
            if sliced and nm not in c.params:
                continue              # a slice declares the names it reads (params / locals); the others are not in scope
            if nm in c.params:
                spec = c.params[nm]
                st.env[nm] = spec.make(st, nm) if isinstance(spec, Sort) else spec
            elif nm in defaults:
                st.env[nm] = self.ev(defaults[nm], st)
            else:
                raise ContractError('%s: parameter %s has no sort in the contract' % (c.qualname, nm))
        if args.kwarg:
            st.env[args.kwarg.arg] = Ref('kwargs')
            st.locs['kwargs'] = DictC({})
        if args.vararg:
            st.env[args.vararg.arg] = ()
        if getattr(c, 'body_from', None) is not None:
            for nm, spec in getattr(c, 'locals', {}).items():
                st.env[nm] = spec.make(st, nm) if isinstance(spec, Sort) else spec
        for k, v in c.ghost_init.items():
            st.ghost[k] = v(View(st, self)) if callable(v) else v
        if getattr(c, 'pre_state', None):
            c.pre_state(st)
        for name, fn in c.requires:
            st.assume(zb(fn(View(st, self))))
        for d in TStr.distinct():
            st.assume(d)
        self.old = st.copy()
        body = self.fn.body
        bf = getattr(c, 'body_from', None)
        if bf is not None:
            # mechanical slice: the statements before the first top-level statement whose source starts with ``bf`` are
            # dropped; the locals they define are inputs of the contract (``c.locals``), arbitrary within their sorts
            idx = [i for i, s_ in enumerate(body) if ast.unparse(s_).startswith(bf)]
            if not idx:
                raise Unsupported('slice marker %r not found among the top-level statements' % bf)
            body = body[idx[0]:]
            if getattr(c, 'body_to', None) and not isinstance(c.body_to, str):
                body = body[:c.body_to]       # ... and the statements after the slice as well
        bt = getattr(c, 'body_to', None)
        if isinstance(bt, str):
            # the slice ends before the first top-level statement whose source starts with ``bt``
            idx = [i for i, s_ in enumerate(body) if ast.unparse(s_).startswith(bt)]
            if not idx:
                raise Unsupported('slice end marker %r not found among the top-level statements' % bt)
            body = body[:idx[0]]
        outs = self.block(body, st)
        for s, kind, payload in outs:
            if kind is None:
                self.exits.append((s, 'return', None))
            elif kind in ('return', 'raise'):
                self.exits.append((s, kind, payload))
            else:
                raise Unsupported('%s escapes the function' % kind)
        self.npaths = len(self.exits)
        self.check_exits()
        return self.obligations

    def check_exits(self):
        c = self.c
        old = View(self.old, self)
        for i, (s, kind, payload) in enumerate(self.exits):
            new = View(s, self)
            if kind == 'return':
                for name, fn in c.ensures:
                    self.oblige(s, 'post:%s#path%d' % (name, i), zb(fn(old, new, payload)),
                                {'exit': 'return', '_old': old, '_new': new, '_res': payload})
            else:
                cls = payload.cls
                if cls in c.raises:
                    for name, fn in c.raises[cls]:
                        self.oblige(s, 'raises(%s):%s#path%d' % (cls, name, i), zb(fn(old, new, payload)), {'exit': cls})
                elif not exc_matches(cls, c.allow_raise):
                    self.oblige(s, 'no-unexpected-exception(%s)#path%d' % (cls, i), z3.BoolVal(False), {'exit': cls})
            self.frame_check(s, i, kind)

    def frame_check(self, s, i, kind):
        """everything not matched by ``modifies`` equals its old value"""
        c = self.c
        if c.modifies is None:
            return
        conj = []
        known = dict(self.old.initial)
        known.update(self.old.heap)
        for path, oldv in known.items():
            if any(fnmatch.fnmatchcase(path, pat) for pat in c.modifies):
                continue
            if '.$e' in path or path.endswith('$e'):
                continue       # attributes of the arbitrary element of an abstract collection (re-chosen per iteration)
            if path not in s.heap:
                continue       # never read nor written on this path
            newv = s.heap.get(path)
            eq = self.same(oldv, newv, self.old, s, path)
            if eq is not True:
                conj.append((path, eq))
        for path, eq in conj:
            self.oblige(s, 'frame:%s#path%d' % (path, i), zb(eq), {'exit': kind})

    def same(self, a, b, sa, sb, path=''):
        """z3 condition: value a (in state sa) equals value b (in state sb), deep for arrays"""
        if a is b:
            if isinstance(a, Ref):
                return self.same_content(sa.content(a), sb.content(a), path)
            return True
        if isinstance(a, Ref) and isinstance(b, Ref):
            if a.loc != b.loc:
                return False    # rebinding of an array attribute: identity changed
            return self.same_content(sa.content(a), sb.content(b), path)
        if isinstance(a, NR) and isinstance(b, NR):
            return zand(a.val == b.val, a.nanz() == b.nanz())
        if isinstance(a, Obj) and isinstance(b, Obj):
            return a.path == b.path
        if isinstance(a, Opaque) and isinstance(b, Opaque):
            return a.term == b.term
        if isinstance(a, MaybeNone) and isinstance(b, MaybeNone):
            return zand(a.isnone == b.isnone, self.same(a.value, b.value, sa, sb, path))
        if z3.is_expr(a) or z3.is_expr(b):
            try:
                return to_z3(a) == to_z3(b)
            except Exception:
                return False
        try:
            return a == b
        except Exception:
            return False

    def same_content(self, ca, cb, path=''):
        if ca is cb:
            return True
        if isinstance(ca, ArrC) and isinstance(cb, ArrC):
            k = fresh('k', I)
            elems = z3.ForAll([k], z3.Implies(z3.And(k >= 0, k < ca.n), z3.And(ca.vals[k] == cb.vals[k],
                                                                           ca.nan_at(k) == cb.nan_at(k))))
            return zand(ca.n == cb.n, elems)
        if isinstance(ca, SeqC) and isinstance(cb, SeqC):
            k = fresh('k', I)
            return zand(ca.n == cb.n, z3.ForAll([k], z3.Implies(z3.And(k >= 0, k < ca.n), ca.arr[k] == cb.arr[k])))
        if isinstance(ca, MapC) and isinstance(cb, MapC):
            return zand(ca.n == cb.n, ca.dom == cb.dom, ca.val == cb.val)
        if isinstance(ca, Arr2C) and isinstance(cb, Arr2C):
            i, j = fresh('i', I), fresh('j', I)
            return zand(ca.n0 == cb.n0, ca.n1 == cb.n1, z3.ForAll([i, j], z3.Implies(
                z3.And(i >= 0, i < ca.n0, j >= 0, j < ca.n1), ca.at(i, j) == cb.at(i, j))))
        if isinstance(ca, ListC) and isinstance(cb, ListC):
            if len(ca.items) != len(cb.items):
                return False
            return zand(*[zb(self.same(x, y, None, None)) if not isinstance(x, Ref) else True
                          for x, y in zip(ca.items, cb.items)])
        if isinstance(ca, DictC) and isinstance(cb, DictC):
            if set(ca.items) != set(cb.items):
                return False
            return zand(*[zb(self.same(ca.items[k], cb.items[k], None, None)) for k in ca.items
                          if not isinstance(ca.items[k], Ref)])
        return False

    # ------------------------------------------------------------------ statements
    def block(self, stmts, st):
        """returns list of (state, kind, payload); kind None = fell through"""
        cur = [st]
        done = []
        for stmt in stmts:
            nxt = []
            for s in cur:
                for out in self.stmt(stmt, s):
                    if out[1] is None:
                        nxt.append(out[0])
                    else:
                        done.append(out)
            cur = nxt
            if len(cur) + len(done) > self.max_paths:
                raise Unsupported('path explosion (> %d paths)' % self.max_paths)
            if not cur:
                break
        return [(s, None, None) for s in cur] + done

    def is_pure_call(self, node):
        if isinstance(node, ast.Call):
            f = ast.unparse(node.func)
            return any(f == p.rstrip('.') or f.startswith(p) for p in PURE_CALL_PREFIXES)
        return False

    def stmt(self, n, st):
        if isinstance(n, ast.Expr):
            if isinstance(n.value, ast.Constant):
                return [(st, None, None)]
            if self.is_pure_call(n.value):
                return [(st, None, None)]
            if isinstance(n.value, ast.Call):
                return [(s, None, None) if k == 'value' else (s, 'raise', v) for s, k, v in self.call_outcomes(n.value, st)]
            self.ev(n.value, st)
            return [(st, None, None)]
        if isinstance(n, ast.Pass):
            return [(st, None, None)]
        if isinstance(n, (ast.Import, ast.ImportFrom)):
            for a in n.names:
                st.env[(a.asname or a.name).split('.')[0]] = Module(a.name if isinstance(n, ast.Import)
                                                                    else '%s.%s' % (n.module, a.name))
            return [(st, None, None)]
        if isinstance(n, ast.Assign) and len(n.targets) == 1 and isinstance(n.targets[0], ast.Name) and \
                n.targets[0].id in getattr(self.c, 'skip_locals', ()):
            st.env[n.targets[0].id] = Opaque(fresh('diag', TStr.sort))      # diagnostics-only local: not evaluated
            return [(st, None, None)]
        if isinstance(n, ast.Assign):
            outs = []
            for s, k, v in self.rhs_outcomes(n.value, st):
                if k == 'raise':
                    outs.append((s, 'raise', v))
                    continue
                for t in n.targets:
                    self.assign(t, v, s)
                outs.append((s, None, None))
            return outs
        if isinstance(n, ast.AnnAssign):
            if n.value is None:
                return [(st, None, None)]
            outs = []
            for s, k, v in self.rhs_outcomes(n.value, st):
                if k == 'raise':
                    outs.append((s, 'raise', v))
                    continue
                self.assign(n.target, v, s)
                outs.append((s, None, None))
            return outs
        if isinstance(n, ast.AugAssign):
            outs = []
            for s, k, v in self.rhs_outcomes(n.value, st):
                if k == 'raise':
                    outs.append((s, 'raise', v))
                    continue
                self.augassign(n.target, n.op, v, s)
                outs.append((s, None, None))
            return outs
        if isinstance(n, ast.Return):
            if n.value is None:
                return [(st, 'return', None)]
            return [(s, 'return', v) if k == 'value' else (s, 'raise', v) for s, k, v in self.rhs_outcomes(n.value, st)]
        if isinstance(n, ast.If):
            return self.if_(n, st)
        if isinstance(n, ast.While):
            return self.while_(n, st)
        if isinstance(n, ast.For):
            return self.for_(n, st)
        if isinstance(n, ast.Break):
            return [(st, 'break', None)]
        if isinstance(n, ast.Continue):
            return [(st, 'continue', None)]
        if isinstance(n, ast.Raise):
            if n.exc is None:
                exc = st.env.get('$current_exc')
                if exc is None:
                    raise Unsupported('bare raise outside handler')
                return [(st, 'raise', exc)]
            if isinstance(n.exc, ast.Call):
                cls = ast.unparse(n.exc.func)
                return [(st, 'raise', ExcVal(cls.split('.')[-1]))]
            if isinstance(n.exc, ast.Name):
                v = st.env.get(n.exc.id)
                if isinstance(v, ExcVal):
                    return [(st, 'raise', v)]
                return [(st, 'raise', ExcVal(n.exc.id))]
            raise Unsupported('raise form')
        if isinstance(n, ast.Try):
            return self.try_(n, st)
        if isinstance(n, ast.Assert):
            return [(st, None, None)]
        if isinstance(n, ast.Delete):
            for t in n.targets:
                if isinstance(t, ast.Name):
                    st.env.pop(t.id, None)
                else:
                    raise Unsupported('del of non-name')
            return [(st, None, None)]
        if isinstance(n, ast.FunctionDef):
            st.env[n.name] = LocalFunc(n)
            return [(st, None, None)]
        if isinstance(n, ast.ClassDef):
            st.env[n.name] = Func('local:' + n.name)
            return [(st, None, None)]
        if isinstance(n, ast.With):
            # context managers: the context expression is evaluated through its contract, the body runs once;
            # __exit__ is assumed not to swallow exceptions
            for item in n.items:
                v = self.ev(item.context_expr, st)
                if item.optional_vars is not None:
                    self.assign(item.optional_vars, v, st)
            return self.block(n.body, st)
        raise Unsupported('statement %s at line %d' % (type(n).__name__, n.lineno))

    # -- calls that may fork
    def rhs_outcomes(self, node, st):
        if isinstance(node, ast.Call) and not self.is_pure_call(node):
            return self.call_outcomes(node, st)
        if isinstance(node, ast.ListComp):
            st.comp_raises = []
            v = self.ev(node, st)
            raises = st.comp_raises
            st.comp_raises = []
            if not raises:
                return [(st, 'value', v)]
            outs = []
            none_raise = []
            for k, n_, cond, exc in raises:
                s2 = st.copy()
                s2.assume(z3.Exists([k], z3.And(k >= 0, k < n_, cond)))
                if self.feasible(s2):
                    outs.append((s2, 'raise', ExcVal(exc)))
                none_raise.append(z3.ForAll([k], z3.Implies(z3.And(k >= 0, k < n_), z3.Not(cond))))
            st.assume(z3.And(*none_raise))
            if self.feasible(st):
                outs.append((st, 'value', v))
            return outs
        return [(st, 'value', self.ev(node, st))]

    def call_outcomes(self, node, st):
        r = self.call(node, st)
        if isinstance(r, Outcomes):
            outs = []
            for cond, kind, payload in r.items:
                s = payload[0] if isinstance(payload, tuple) and isinstance(payload[0], State) else st.copy()
                val = payload[1] if isinstance(payload, tuple) and isinstance(payload[0], State) else payload
                if cond is not None:
                    if isinstance(cond, bool):
                        if not cond:
                            continue
                    else:
                        s.assume(cond)
                        if not self.feasible(s):
                            continue
                outs.append((s, kind, val))
            return outs
        return [(st, 'value', r)]

    def if_(self, n, st):
        outs = []
        for s0, k, cv in self.rhs_outcomes(n.test, st):
            if k == 'raise':
                outs.append((s0, 'raise', cv))
                continue
            c = self.truth(cv, s0)
            if isinstance(c, bool):
                outs.extend(self.block(n.body if c else n.orelse, s0))
                continue
            st_t, st_f = s0, s0.copy()
            fork_locs = set(s0.locs) | set(s0.initial_locs)
            st_t.assume(c)
            st_f.assume(z3.Not(c))
            branch = []
            if self.feasible(st_t):
                branch.extend(self.block(n.body, st_t))
            if self.feasible(st_f):
                branch.extend(self.block(n.orelse, st_f))
            outs.extend(self.merge_outcomes(branch, fork_locs))
        return outs

    # ------------------------------------------------------------------ state merging at joins
    def merge_outcomes(self, outs, fork_locs):
        fall = [o[0] for o in outs if o[1] is None]
        rest = [o for o in outs if o[1] is not None]
        if len(fall) <= 1 or not getattr(self.c, 'merge', True):
            return outs
        merged = self.merge_states(fall, fork_locs)
        if merged is None:
            return outs
        return [(merged, None, None)] + rest

    def merge_states(self, states, fork_locs):
        # common pc prefix
        pcs = [s.pc for s in states]
        k = 0
        while all(len(p) > k for p in pcs) and all(pcs[0][k] is p[k] or pcs[0][k].eq(p[k]) for p in pcs[1:]):
            k += 1
        guards = [zb(zand(*p[k:])) for p in pcs]
        m = states[0].copy()
        m.pc = list(pcs[0][:k]) + [z3.Or(*guards)]
        try:
            # environment
            names = set()
            for s in states:
                names |= set(s.env)
            for nm in names:
                if not all(nm in s.env for s in states):
                    m.env.pop(nm, None)        # defined on some branches only: unusable afterwards
                    continue
                m.env[nm] = self.merge_vals(guards, [s.env[nm] for s in states], states, m, fork_locs)
            # heap
            paths = set()
            for s in states:
                paths |= set(s.heap)
            for pth in paths:
                vals = []
                for s in states:
                    vals.append(s.heap[pth] if pth in s.heap else s.load(pth))
                m.heap[pth] = self.merge_vals(guards, vals, states, m, fork_locs)
            # contents of locations that exist in all states
            locs = set()
            for s in states:
                locs |= set(s.locs)
            for loc in locs:
                if not all(loc in s.locs or loc in s.initial_locs for s in states):
                    continue           # branch-local temporaries: unreachable unless merged through a Ref above
                cs = [s.content(Ref(loc)) for s in states]
                m.locs[loc] = self.merge_contents(guards, cs, states, m, fork_locs)
            # ghost
            gk = set()
            for s in states:
                gk |= set(s.ghost)
            for g in gk:
                if all(g in s.ghost for s in states):
                    m.ghost[g] = self.merge_vals(guards, [s.ghost[g] for s in states], states, m, fork_locs)
            if any(s.writes is not None for s in states):
                w = set()
                for s in states:
                    w |= (s.writes or set())
                m.writes = w
            hp = []
            for s in states:
                for pat in s.havoc_pats:
                    if pat not in hp:
                        hp.append(pat)
            m.havoc_pats = hp
        except _NoMerge:
            return None
        return m

    def merge_vals(self, guards, vals, states, m, fork_locs):
        first = vals[0]
        if all(v is first for v in vals[1:]):
            return first
        try:
            if all(type(v) is type(first) and not isinstance(v, (Ref, NR, Opaque, Obj, MaybeNone, tuple)) and
                   not z3.is_expr(v) and v == first for v in vals[1:]):
                return first
        except Exception:
            pass
        if all(isinstance(v, Obj) for v in vals):
            if all(v.path == first.path for v in vals):
                return first
            raise _NoMerge()
        if all(isinstance(v, Ref) for v in vals):
            if all(v.loc == first.loc for v in vals):
                return first
            # different arrays: only branch-local temporaries may be merged into a new location
            if any(v.loc in fork_locs for v in vals):
                raise _NoMerge()
            cs = [s.content(v) for s, v in zip(states, vals)]
            return m.new_ref(self.merge_contents(guards, cs, states, m, fork_locs), 'merged')
        if all(isinstance(v, tuple) for v in vals) and all(len(v) == len(first) for v in vals):
            return tuple(self.merge_vals(guards, [v[i] for v in vals], states, m, fork_locs) for i in range(len(first)))
        if any(isinstance(v, (Ref, Obj, tuple, Func, Method, Module, ExcVal)) for v in vals):
            raise _NoMerge()
        if all(v is None or isinstance(v, MaybeNone) for v in vals) and any(v is None for v in vals):
            raise _NoMerge()
        if any(v is None for v in vals):
            raise _NoMerge()
        out = vals[-1]
        for g, v in zip(reversed(guards[:-1]), reversed(vals[:-1])):
            try:
                out = self.ite(g, v, out)
            except Unsupported:
                raise _NoMerge()
        return out

    def merge_contents(self, guards, cs, states, m, fork_locs):
        first = cs[0]
        if all(c is first for c in cs[1:]):
            return first
        if any(isinstance(c, ListC) for c in cs) and not all(isinstance(c, ListC) and len(c.items) == len(first.items)
                                                            for c in cs if True):
            try:
                cs = [list_as_seq(c) if isinstance(c, ListC) else c for c in cs]
            except Unsupported:
                raise _NoMerge()
            first = cs[0]
        if all(isinstance(c, ArrC) for c in cs):
            vals, n = cs[-1].vals, cs[-1].n
            anyn = any(c.nans is not None for c in cs)
            nans = (cs[-1].nans if cs[-1].nans is not None else z3.K(I, z3.BoolVal(False))) if anyn else None
            for g, c in zip(reversed(guards[:-1]), reversed(cs[:-1])):
                vals = z3.If(g, c.vals, vals)
                n = z3.If(g, c.n, n) if not (c.n is n or c.n.eq(n)) else n
                if anyn:
                    nans = z3.If(g, c.nans if c.nans is not None else z3.K(I, z3.BoolVal(False)), nans)
            return ArrC(vals, n, nans)
        if all(isinstance(c, SeqC) for c in cs):
            if not all(c.arr.sort() == first.arr.sort() for c in cs):
                raise _NoMerge()
            arr, n = cs[-1].arr, cs[-1].n
            anyn = any(c.nans is not None for c in cs)
            nans = (cs[-1].nans if cs[-1].nans is not None else z3.K(I, z3.BoolVal(False))) if anyn else None
            for g, c in zip(reversed(guards[:-1]), reversed(cs[:-1])):
                arr = z3.If(g, c.arr, arr)
                n = z3.If(g, c.n, n) if not (c.n is n or c.n.eq(n)) else n
                if anyn:
                    nans = z3.If(g, c.nans if c.nans is not None else z3.K(I, z3.BoolVal(False)), nans)
            return SeqC(arr, n, nans)
        if all(isinstance(c, Arr2C) for c in cs):
            def f(i, j, cs=cs, guards=guards):
                out = cs[-1].at(i, j)
                for g, c in zip(reversed(guards[:-1]), reversed(cs[:-1])):
                    out = z3.If(g, c.at(i, j), out)
                return out
            n0, n1 = cs[-1].n0, cs[-1].n1
            for g, c in zip(reversed(guards[:-1]), reversed(cs[:-1])):
                n0 = z3.If(g, c.n0, n0) if not (c.n0 is n0 or c.n0.eq(n0)) else n0
                n1 = z3.If(g, c.n1, n1) if not (c.n1 is n1 or c.n1.eq(n1)) else n1
            return Arr2C(f, n0, n1)
        if all(isinstance(c, MapC) for c in cs):
            dom, val, n = cs[-1].dom, cs[-1].val, cs[-1].n
            for g, c in zip(reversed(guards[:-1]), reversed(cs[:-1])):
                dom, val, n = z3.If(g, c.dom, dom), z3.If(g, c.val, val), z3.If(g, c.n, n)
            return MapC(dom, val, n)
        if all(isinstance(c, ListC) for c in cs) and all(len(c.items) == len(first.items) for c in cs):
            return ListC([self.merge_vals(guards, [c.items[i] for c in cs], states, m, fork_locs)
                          for i in range(len(first.items))])
        if all(isinstance(c, DictC) for c in cs) and all(set(c.items) == set(first.items) for c in cs):
            return DictC({k: self.merge_vals(guards, [c.items[k] for c in cs], states, m, fork_locs) for k in first.items})
        raise _NoMerge()

    def try_(self, n, st):
        outs = []
        body_outs = self.block(n.body, st)
        after = []
        for s, kind, payload in body_outs:
            if kind == 'raise':
                handled = False
                for h in n.handlers:
                    names = self.handler_names(h)
                    if names is None or exc_matches(payload.cls, names):
                        if h.name:
                            s.env[h.name] = payload
                        s.env['$current_exc'] = payload
                        after.extend(self.block(h.body, s))
                        handled = True
                        break
                if not handled:
                    after.append((s, kind, payload))
            elif kind is None and n.orelse:
                after.extend(self.block(n.orelse, s))
            else:
                after.append((s, kind, payload))
        if n.finalbody:
            for s, kind, payload in after:
                for s2, k2, p2 in self.block(n.finalbody, s):
                    outs.append((s2, kind, payload) if k2 is None else (s2, k2, p2))
        else:
            outs = after
        return outs

    @staticmethod
    def handler_names(h):
        if h.type is None:
            return None
        if isinstance(h.type, ast.Tuple):
            return [ast.unparse(e).split('.')[-1] for e in h.type.elts]
        return [ast.unparse(h.type).split('.')[-1]]

    # -- loops
    def while_(self, n, st):
        lid = self.loop_ids[id(n)]
        spec = self.c.loops.get(lid)
        if spec is None:
            raise Unsupported('loop #%d (line %d) has no invariant in the contract' % (lid, n.lineno))
        return self.cut_loop(n, st, spec, lid, test=n.test, body=n.body, orelse=n.orelse)


    def auto_havoc_locals(self, head, body, frame):
        """Locals that the loop body assigns are loop-carried: at the loop head they hold an arbitrary value of their kind, whether or
        not the contract's frame names them.  Applied to scalar kinds (flags, counters, numbers, opaque values); containers are
        covered by the frame patterns (they are mutated in place) or by ``Loop.rebind``."""
        names = set()

        def targets(t):
            if isinstance(t, ast.Name):
                names.add(t.id)
            elif isinstance(t, (ast.Tuple, ast.List)):
                for e in t.elts:
                    targets(e)
            elif isinstance(t, ast.Starred):
                targets(t.value)
        for stmt_ in body:
            for node in ast.walk(stmt_):
                if isinstance(node, ast.Assign):
                    for t in node.targets:
                        targets(t)
                elif isinstance(node, (ast.AugAssign, ast.AnnAssign)):
                    targets(node.target)
                elif isinstance(node, ast.For):
                    targets(node.target)
                elif isinstance(node, ast.NamedExpr):
                    targets(node.target)
        declared = set(p[1:] for p in frame if isinstance(p, str) and p.startswith('$'))
        for nm in names - declared:
            if nm not in head.env:
                continue
            v = head.env[nm]
            if isinstance(v, (bool, int, float, NR, Opaque, MaybeNone)) or (z3.is_expr(v)):
                head.env[nm] = self.havoc_value(head, v, nm + '@loophead')

    def cut_loop(self, n, st, spec, lid, test, body, orelse, pre_body=None):
        # 1. invariant on entry
        for name, fn in spec.inv:
            self.oblige(st, 'inv-entry:loop%d:%s' % (lid, name), zb(fn(View(st, self))), {'loop': lid})
        # 2. havoc the declared frame
        head = st.copy()
        allowed_locs = self.frame_locs(head, spec.frame)
        saved_outer = head.writes
        head.writes = None
        self.havoc_frame(head, spec.frame)
        self.auto_havoc_locals(head, body, spec.frame)
        allowed_locs |= self.frame_locs(head, spec.frame)
        head.writes = saved_outer
        if saved_outer is not None:
            for loc in allowed_locs:
                saved_outer.add('locid:' + loc)
            for pat in spec.frame:
                if not callable(pat) and not pat.startswith('loc:'):
                    saved_outer.add(pat)
        head_locs = set(head.locs) | set(head.initial_locs)
        for name, fn in spec.inv:
            head.assume(zb(fn(View(head, self))))
        outs = []
        # 3. exit by the guard
        tv = None
        if test is not None:
            tv = self.truth(self.ev(test, head), head)
        exit_st = head.copy()
        body_st = head
        if test is not None:
            if isinstance(tv, bool):
                if not tv:
                    raise Unsupported('loop guard is constantly false')
                exit_st = None
            else:
                exit_st.assume(z3.Not(tv))
                body_st.assume(tv)
        if exit_st is not None and self.feasible(exit_st):
            if orelse:
                outs.extend(self.block(orelse, exit_st))
            else:
                outs.append((exit_st, None, None))
        # 4. one arbitrary iteration
        if self.feasible(body_st):
            saved = body_st.writes
            body_st.writes = set()
            if pre_body:
                pre_body(body_st)
            for name, fn in getattr(spec, 'assume', ()):
                body_st.assume(zb(fn(View(body_st, self))))
            dec0 = spec.decreases(View(body_st, self)) if spec.decreases else None
            for s, kind, payload in self.block(body, body_st):
                written = s.writes
                # locals are loop-carried values (havoced at the head by auto_havoc_locals / the frame); only heap writes are checked
                self.check_loop_frame({w for w in written if not w.startswith('$')}, spec.frame, lid, allowed_locs, head_locs)
                s.writes = saved if saved is None else (saved | written)
                if kind in (None, 'continue'):
                    for name, fn in spec.inv:
                        self.oblige(s, 'inv-step:loop%d:%s' % (lid, name), zb(fn(View(s, self))), {'loop': lid})
                    if dec0 is not None:
                        d1 = spec.decreases(View(s, self))
                        self.oblige(s, 'decreases:loop%d' % lid, z3.And(d1 < dec0, dec0 >= 0), {'loop': lid})
                elif kind == 'break':
                    outs.append((s, None, None))
                else:
                    outs.append((s, kind, payload))
        return outs

    def frame_locs(self, st, frame):
        """location ids denoted by the 'loc:<pattern>' entries of a frame: by creation name, or the array currently
        referenced by a matching heap path"""
        ids = set()
        for pat in frame:
            if callable(pat):
                ids |= set(pat(st))          # state-dependent frame entry: returns location ids
                continue
            if not pat.startswith('loc:'):
                continue
            p = pat[4:]
            for loc, name in st.loc_names.items():
                if fnmatch.fnmatchcase(name, p) and (loc in st.locs or loc in st.initial_locs):
                    ids.add(loc)
            for path, v in st.heap.items():
                if fnmatch.fnmatchcase(path, p):
                    for r in self.refs_in(v):
                        ids.add(r.loc)
            if '*' not in p and st.schema_for(p) is not None and p not in st.heap:
                for r in self.refs_in(st.load(p)):
                    ids.add(r.loc)
        return ids

    @staticmethod
    def refs_in(v):
        if isinstance(v, Ref):
            return [v]
        if isinstance(v, MaybeNone):
            return Engine.refs_in(v.value)
        return []

    def check_loop_frame(self, written, frame, lid, allowed_locs=(), head_locs=()):
        for w in written or ():
            if w.startswith('locid:'):
                loc = w[6:]
                if loc in allowed_locs or loc not in head_locs:
                    continue
                raise ContractError('loop #%d writes array %s which is not in its declared frame %s' % (lid, loc, frame))
            if w.startswith('loc:'):
                continue
            if not any(fnmatch.fnmatchcase(w, pat) for pat in frame if not callable(pat)):
                raise ContractError('loop #%d writes %s which is not in its declared frame %s' % (lid, w, frame))

    def havoc_frame(self, st, frame):
        for pat in frame:
            if callable(pat):
                for loc in pat(st):
                    st.locs[loc] = self.havoc_content(st, st.content(Ref(loc)), st.loc_names.get(loc, loc))
                    if st.writes is not None:
                        st.writes.add('locid:' + loc)
                continue
            if pat.startswith('$'):
                nm = pat[1:]
                if nm in st.env:
                    st.env[nm] = self.havoc_value(st, st.env[nm], nm)
                continue
            if pat.startswith('ghost:'):
                g = pat[6:]
                if g in st.ghost and z3.is_expr(st.ghost[g]):
                    st.ghost[g] = fresh('ghost.' + g, st.ghost[g].sort())
                elif g in st.ghost and isinstance(st.ghost[g], int):
                    st.ghost[g] = fresh('ghost.' + g, I)
                continue
            if pat.startswith('loc:'):
                for loc in self.frame_locs(st, [pat]):
                    st.locs[loc] = self.havoc_content(st, st.content(Ref(loc)), st.loc_names.get(loc, loc))
                    if st.writes is not None:
                        st.writes.add('locid:' + loc)
                continue
            if '*' in pat:
                st.havoc_pats.append(pat)
                # instantiate every declared path under the wildcard first, so that all copies of this state
                # share one post-havoc symbol per location
                for key in list(st.schema):
                    if '*' not in key and key not in st.heap and fnmatch.fnmatchcase(key, pat):
                        try:
                            st.load(key)
                        except Unsupported:
                            pass
            matched = False
            for path in list(st.heap):
                if fnmatch.fnmatchcase(path, pat):
                    st.heap[path] = self.havoc_value(st, st.heap[path], path)
                    matched = True
            if not matched and '*' not in pat and st.schema_for(pat) is not None:
                v = st.load(pat)
                st.heap[st.canon(pat)] = self.havoc_value(st, v, pat)

    def havoc_value(self, st, v, name):
        if isinstance(v, NR):
            return NR(fresh(name, R), False if v.nan is False else fresh(name + '.nan', Bo))
        if isinstance(v, bool):
            return fresh(name, Bo)
        if isinstance(v, int):
            return fresh(name, I)
        if isinstance(v, float):
            return NR(fresh(name, R), False)
        if z3.is_expr(v):
            return fresh(name, v.sort())
        if isinstance(v, Opaque):
            return Opaque(fresh(name, v.term.sort()))
        if isinstance(v, Ref):
            # rebinding is not modelled by havoc: the content is havoced in place
            st.locs[v.loc] = self.havoc_content(st, st.content(v), name)
            return v
        if isinstance(v, MaybeNone):
            return MaybeNone(fresh(name + '.isnone', Bo), self.havoc_value(st, v.value, name))
        if v is None or isinstance(v, (str, Obj, Func, Module)):
            return v
        if isinstance(v, Coll):
            n = fresh(name + '.size', I)
            st.assume(n >= 0)
            return Coll(v.path, n, v.keysort)
        if isinstance(v, tuple):
            return v      # ghost descriptions of call results (immutable)
        raise Unsupported('cannot havoc %r (%s)' % (v, name))

    def havoc_content(self, st, c, name):
        if isinstance(c, ArrC):
            nc = ArrC(fresh(name, z3.ArraySort(I, R)), c.n, None if c.nans is None else fresh(name + '.nans', z3.ArraySort(I, Bo)),
                      kind=c.kind)
            if c.kind == 'int':
                k = fresh('k', I)
                st.assume(z3.ForAll([k], z3.IsInt(nc.vals[k])))
            return nc
        if isinstance(c, SeqC):
            n = fresh(name + '.len', I)
            st.assume(n >= 0)
            return SeqC(fresh(name, c.arr.sort()), n, None if c.nans is None else fresh(name + '.nans', z3.ArraySort(I, Bo)))
        if isinstance(c, Arr2C):
            fn = z3.Function('%s!%d' % (name, len(self.obligations) + id(c) % 100000), I, I, R)
            return Arr2C(lambda i, j: fn(i, j), c.n0, c.n1)
        if isinstance(c, MapC):
            n = fresh(name + '.size', I)
            st.assume(n >= 0)
            return MapC(fresh(name + '.dom', c.dom.sort()), fresh(name + '.val', c.val.sort()), n)
        if isinstance(c, ListC):
            if all((isinstance(x, (int, float, NR)) and not isinstance(x, bool)) or (z3.is_expr(x) and z3.is_arith(x))
                   for x in c.items):
                # a python list of numbers that is grown inside a loop: symbolic length from here on
                n = fresh(name + '.len', I)
                st.assume(n >= 0)
                return SeqC(fresh(name, z3.ArraySort(I, R)), n, fresh(name + '.nans', z3.ArraySort(I, Bo)))
            return ListC([self.havoc_value(st, x, name) for x in c.items])
        raise Unsupported('cannot havoc content of %s' % name)

    def for_(self, n, st):
        lid = self.loop_ids[id(n)]
        spec = self.c.loops.get(lid)
        it = n.iter
        # concrete iterables are unrolled
        seq = self.concrete_iter(it, st)
        if seq is not None and spec is None:
            outs = []
            cur = [st]
            for item in seq:
                nxt = []
                for s in cur:
                    self.assign(n.target, item, s)
                    for s2, kind, payload in self.block(n.body, s):
                        if kind in (None, 'continue'):
                            nxt.append(s2)
                        elif kind == 'break':
                            outs.append((s2, None, None))
                        else:
                            outs.append((s2, kind, payload))
                cur = nxt
            for s in cur:
                if n.orelse:
                    outs.extend(self.block(n.orelse, s))
                else:
                    outs.append((s, None, None))
            return outs
        if seq is not None and spec is not None and spec.summary is None:
            # concrete iterable cut by an invariant: every iteration is verified on its own from the loop-head state
            for name, fn in spec.inv:
                self.oblige(st, 'inv-entry:loop%d:%s' % (lid, name), zb(fn(View(st, self))), {'loop': lid})
            head = st.copy()
            allowed_locs = self.frame_locs(head, spec.frame)
            _sw = head.writes
            head.writes = None
            self.havoc_frame(head, spec.frame)
            self.auto_havoc_locals(head, n.body, spec.frame)
            allowed_locs |= self.frame_locs(head, spec.frame)
            head.writes = _sw
            head_locs = set(head.locs) | set(head.initial_locs)
            for name, fn in spec.inv:
                head.assume(zb(fn(View(head, self))))
            outs = []
            for item in seq:
                s = head.copy()
                s.writes = set()
                self.assign(n.target, item, s)
                for s2, kind, payload in self.block(n.body, s):
                    self.check_loop_frame({w for w in (s2.writes or ()) if not w.startswith('$')}, spec.frame, lid,
                                          allowed_locs, head_locs)
                    s2.writes = _sw
                    if kind in (None, 'continue'):
                        for name, fn in spec.inv:
                            self.oblige(s2, 'inv-step:loop%d:%s' % (lid, name), zb(fn(View(s2, self))), {'loop': lid})
                    elif kind == 'break':
                        outs.append((s2, None, None))
                    else:
                        outs.append((s2, kind, payload))
            if n.orelse:
                outs.extend(self.block(n.orelse, head))
            else:
                outs.append((head, None, None))
            return outs
        if spec is None:
            raise Unsupported('for-loop #%d (line %d) over a symbolic iterable has no invariant' % (lid, n.lineno))
        if spec.summary is not None:
            return spec.summary(self, st, n)
        # symbolic iteration: for <target> in range(a, b) | <sequence>
        idx_name = '$i%d' % lid
        if isinstance(it, ast.Call) and ast.unparse(it.func) == 'range':
            args = [self.ev(a, st) for a in it.args]
            lo, hi = (0, args[0]) if len(args) == 1 else (args[0], args[1])
            if len(args) == 3:
                raise Unsupported('range with step')
            lo, hi = to_z3(lo), to_z3(hi)
            st.env[idx_name] = lo
            frame = list(spec.frame) + ['$' + idx_name[1:]]

            def pre_body(s):
                self.assign(n.target, s.env[idx_name], s)

            # encode as while idx < hi: target = idx; body; idx += 1
            class _T:
                pass
            test_fn = lambda s: s.env[idx_name] < hi  # noqa
            return self.cut_for(n, st, spec, lid, idx_name, test_fn, pre_body, lo, lambda s: z3.If(hi >= lo, hi, lo))
        enum = False
        it2 = it
        if isinstance(it, ast.Call) and ast.unparse(it.func) == 'enumerate' and len(it.args) == 1:
            enum, it2 = True, it.args[0]
        if isinstance(it2, ast.Call) and ast.unparse(it2.func) == 'zip' and not any(isinstance(a, ast.Starred) for a in it2.args):
            seqs = [self.ev(a, st) for a in it2.args]
            if all(isinstance(q, Ref) and isinstance(st.content(q), (SeqC, ArrC)) for q in seqs):
                st.env[idx_name] = z3.IntVal(0)

                def zlen(s):
                    m = s.content(seqs[0]).n
                    for q in seqs[1:]:
                        m = z3.If(s.content(q).n < m, s.content(q).n, m)
                    return m

                def pre_body(s):
                    i = s.env[idx_name]
                    item = tuple(self.elem(s.content(q), i) for q in seqs)
                    self.assign(n.target, (i, item) if enum else item, s)
                test_fn = lambda s: s.env[idx_name] < zlen(s)  # noqa
                return self.cut_for(n, st, spec, lid, idx_name, test_fn, pre_body, z3.IntVal(0), zlen)
        seqv = self.ev(it2, st)
        if isinstance(seqv, MaybeNone):
            seqv = seqv.value        # on this path `is not None` has been established by the code
        if isinstance(seqv, Coll):
            seqv = ('absiter', seqv, 'values')
        if isinstance(seqv, tuple) and len(seqv) == 2 and seqv[0] == 'rowiter':
            rd = seqv[1]
            st.env[idx_name] = z3.IntVal(0)

            def pre_body(s):
                c = s.content(rd)
                i = s.env[idx_name]
                j = fresh('k', I)
                row = s.new_ref(ArrC(z3.Lambda([j], c.rows(i, j)), c.width, None), 'rowval')
                self.assign(n.target, (i, row) if enum else row, s)
            test_fn = lambda s: s.env[idx_name] < s.content(rd).n  # noqa
            return self.cut_for(n, st, spec, lid, idx_name, test_fn, pre_body, z3.IntVal(0), lambda s: s.content(rd).n)
        if isinstance(seqv, tuple) and len(seqv) == 3 and seqv[0] == 'absiter':
            coll, kind = seqv[1], seqv[2]
            st.env[idx_name] = z3.IntVal(0)

            def pre_body(s):
                i = s.env[idx_name]
                elem = Obj(coll.path + '.$e')
                # one arbitrary element: forget whatever an enclosing iteration knew about '$e'
                for pth in [p for p in s.heap if p.startswith(elem.path + '.')]:
                    del s.heap[pth]
                if kind == 'values':
                    item = elem
                elif kind == 'keys':
                    item = Opaque(fresh('key', (TStr.sort if coll.keysort is None else coll.keysort)))
                else:
                    item = (Opaque(fresh('key', (TStr.sort if coll.keysort is None else coll.keysort))), elem)
                self.assign(n.target, (i, item) if enum else item, s)
            test_fn = lambda s: s.env[idx_name] < coll.n  # noqa
            return self.cut_for(n, st, spec, lid, idx_name, test_fn, pre_body, z3.IntVal(0), lambda s: coll.n)
        if isinstance(seqv, Ref) and isinstance(st.content(seqv), (SeqC, ArrC)):
            c = st.content(seqv)
            st.env[idx_name] = z3.IntVal(0)

            def pre_body(s):
                cc = s.content(seqv)
                i = s.env[idx_name]
                self.assign(n.target, (i, self.elem(cc, i)) if enum else self.elem(cc, i), s)
            test_fn = lambda s: s.env[idx_name] < s.content(seqv).n  # noqa
            return self.cut_for(n, st, spec, lid, idx_name, test_fn, pre_body, z3.IntVal(0), lambda s: s.content(seqv).n)
        if enum:
            raise Unsupported('enumerate over a non-abstract iterable with an invariant')
        raise Unsupported('for-loop #%d over unsupported iterable' % lid)

    def cut_for(self, n, st, spec, lid, idx_name, test_fn, pre_body, lo, hi_fn=None):
        """for-loops over ranges / symbolic sequences as 'while i < n' with the index in the local ``$i<lid>``"""
        frame = list(spec.frame) + [idx_name]
        bounds = [('index-lower-bound', lambda v: v.local(idx_name) >= lo)]
        if hi_fn is not None:
            bounds.append(('index-upper-bound', lambda v: v.local(idx_name) <= hi_fn(v.st)))
        spec2 = Loop(inv=list(spec.inv) + bounds, frame=frame, decreases=spec.decreases)
        # entry
        for name, fn in spec2.inv:
            self.oblige(st, 'inv-entry:loop%d:%s' % (lid, name), zb(fn(View(st, self))), {'loop': lid})
        head = st.copy()
        allowed_locs = self.frame_locs(head, spec.frame)
        _sw = head.writes
        head.writes = None
        self.havoc_frame(head, spec.frame)
        self.auto_havoc_locals(head, n.body, frame)
        allowed_locs |= self.frame_locs(head, spec.frame)
        head.writes = _sw
        for nm, srt in getattr(spec, 'rebind', {}).items():
            head.env[nm] = srt.make(head, nm + '@loop%d' % lid)
            if isinstance(head.env[nm], Ref):
                allowed_locs.add(head.env[nm].loc)       # the body may also mutate the rebound value in place
        head_locs = set(head.locs) | set(head.initial_locs)
        head.env[idx_name] = fresh('i%d' % lid, I)
        for name, fn in spec2.inv:
            head.assume(zb(fn(View(head, self))))
        outs = []
        exit_st = head.copy()
        tv = test_fn(head)
        exit_st.assume(z3.Not(tv))
        head.assume(tv)
        if self.feasible(exit_st):
            if n.orelse:
                outs.extend(self.block(n.orelse, exit_st))
            else:
                outs.append((exit_st, None, None))
        if self.feasible(head):
            saved = head.writes
            head.writes = set()
            pre_body(head)
            for name, fn in getattr(spec, 'assume', ()):
                head.assume(zb(fn(View(head, self))))
            for s, kind, payload in self.block(n.body, head):
                written = s.writes
                self.check_loop_frame({w for w in written if not w.startswith('$')} | set(), frame, lid, allowed_locs, head_locs)
                s.writes = saved if saved is None else (saved | written)
                if kind in (None, 'continue'):
                    s.env[idx_name] = s.env[idx_name] + 1
                    for name, fn in spec2.inv:
                        self.oblige(s, 'inv-step:loop%d:%s' % (lid, name), zb(fn(View(s, self))), {'loop': lid})
                elif kind == 'break':
                    outs.append((s, None, None))
                else:
                    outs.append((s, kind, payload))
        return outs

    def concrete_iter(self, it, st):
        """python-level list of values when the iterable is concrete (tuple/list literal, range of ints, ListC, dict)"""
        if isinstance(it, (ast.Tuple, ast.List)):
            return [self.ev(e, st) for e in it.elts]
        if isinstance(it, ast.Call):
            f = ast.unparse(it.func)
            if f == 'range':
                args = [self.ev(a, st) for a in it.args]
                if all(isinstance(a, int) for a in args):
                    return list(range(*args))
                return None
            if f == 'enumerate':
                inner = self.concrete_iter(it.args[0], st)
                return None if inner is None else [tuple([i, x]) for i, x in enumerate(inner)]
            if f == 'zip':
                inner = [self.concrete_iter(a, st) for a in it.args]
                return None if any(i is None for i in inner) else [tuple(x) for x in zip(*inner)]
            if f.endswith('.items') or f.endswith('.values') or f.endswith('.keys'):
                base = self.ev(it.func.value, st)
                if isinstance(base, Ref) and isinstance(st.content(base), DictC):
                    d = st.content(base).items
                    if f.endswith('.items'):
                        return [tuple([k, v]) for k, v in d.items()]
                    return list(d.values()) if f.endswith('.values') else list(d.keys())
                return None
            return None
        try:
            v = self.ev(it, st)
        except Unsupported:
            return None
        if isinstance(v, Ref):
            c = st.content(v)
            if isinstance(c, ListC):
                return list(c.items)
            if isinstance(c, DictC):
                return list(c.items.keys())
        if isinstance(v, (tuple, list)):
            return list(v)
        return None

    # ------------------------------------------------------------------ assignment
    def assign(self, target, value, st):
        if isinstance(target, ast.Name):
            st.env[target.id] = value
            if st.writes is not None:
                st.writes.add('$' + target.id)
            return
        if isinstance(target, (ast.Tuple, ast.List)):
            vals = self.unpack(value, len(target.elts), st)
            for t, v in zip(target.elts, vals):
                self.assign(t, v, st)
            return
        if isinstance(target, ast.Attribute):
            base = self.ev(target.value, st)
            if isinstance(base, Obj):
                st.store(base.path + '.' + target.attr, value)
                return
            raise Unsupported('attribute store on %r' % (base,))
        if isinstance(target, ast.Subscript):
            base = self.ev(target.value, st)
            self.store_sub(base, target.slice, value, st)
            return
        if isinstance(target, ast.Starred):
            raise Unsupported('starred assignment')
        raise Unsupported('assignment target %s' % type(target).__name__)

    def unpack(self, value, n, st):
        if isinstance(value, (tuple, list)):
            if len(value) != n:
                raise Unsupported('unpack arity')
            return list(value)
        if isinstance(value, Ref) and isinstance(st.content(value), ListC):
            items = st.content(value).items
            if len(items) != n:
                raise Unsupported('unpack arity')
            return list(items)
        if isinstance(value, Obj):
            # record-like element of an abstract collection: components live at <path>.f<k>
            return [st.load(value.path + '.f%d' % k) for k in range(n)]
        raise Unsupported('cannot unpack %r' % (value,))

    def augassign(self, target, op, v, st):
        if isinstance(target, ast.Name):
            cur = st.env[target.id]
            if isinstance(cur, Ref) and isinstance(st.content(cur), ArrC):
                st.set_content(cur, self.arr_binop(op, st.content(cur), v, st))   # in-place on ndarray
            else:
                st.env[target.id] = self.binop(op, cur, v, st)
                if st.writes is not None:
                    st.writes.add('$' + target.id)
            return
        if isinstance(target, ast.Attribute):
            base = self.ev(target.value, st)
            if not isinstance(base, Obj):
                raise Unsupported('augassign on attribute of %r' % (base,))
            path = base.path + '.' + target.attr
            cur = st.load(path)
            if isinstance(cur, Ref) and isinstance(st.content(cur), ArrC):
                st.set_content(cur, self.arr_binop(op, st.content(cur), v, st))   # numpy: in place, identity kept
            else:
                st.store(path, self.binop(op, cur, v, st))
            return
        if isinstance(target, ast.Subscript):
            base = self.ev(target.value, st)
            cur = self.load_sub(base, target.slice, st)
            self.store_sub(base, target.slice, self.binop(op, cur, v, st), st)
            return
        raise Unsupported('augassign target')

    # ------------------------------------------------------------------ subscripts
    def slice_bounds(self, sl, n, st):
        lo = 0 if sl.lower is None else self.ev(sl.lower, st)
        hi = n if sl.upper is None else self.ev(sl.upper, st)
        if sl.step is not None:
            raise Unsupported('slice step')

        def norm(b):
            if isinstance(b, int):
                if b < 0:
                    return z3.If(n + b >= 0, n + b, z3.IntVal(0))      # python clamps negative bounds
                return z3.IntVal(b)
            return to_z3(b)
        return norm(lo), norm(hi)

    def elem(self, c, i):
        if isinstance(c, ArrC):
            return c.at(i)
        if isinstance(c, SeqC):
            e = c.arr[i]
            if z3.is_real(e):
                return NR(e, False if c.nans is None else c.nans[i])
            if e.sort().kind() == z3.Z3_UNINTERPRETED_SORT:
                return Opaque(e)
            return e
        raise Unsupported('element of %r' % (c,))

    def norm_index(self, idx, n):
        """python index (possibly negative literal) -> z3 int"""
        if isinstance(idx, int):
            return (n + idx) if idx < 0 else z3.IntVal(idx)
        z = to_z3(idx)
        if z3.is_real(z):
            z = z3.ToInt(z)       # integer-valued numpy scalar used as an index
        return z

    def project(self, sl):
        if isinstance(sl, ast.Constant) and sl.value is Ellipsis:
            return ast.Slice(lower=None, upper=None, step=None)       # x[...] = v  is  x[:] = v  for 1-D arrays
        return self.project_rows(sl)

    def project_rows(self, sl):
        """row projection of 2-D history arrays: x[:, j] -> x[j], x[:, None] -> x (one arbitrary device row)"""
        if getattr(self.c, 'row_projection', False) and isinstance(sl, ast.Tuple) and len(sl.elts) == 2 and \
                isinstance(sl.elts[0], ast.Slice) and sl.elts[0].lower is None and sl.elts[0].upper is None:
            return sl.elts[1]
        return sl

    def sub2d(self, c, sl, st):
        """classify a 2-D subscript: ('row', i) | ('col', j) | ('elem', i, j)"""
        if isinstance(sl, ast.Tuple) and len(sl.elts) == 2:
            a, b = sl.elts
            full = lambda x: isinstance(x, ast.Slice) and x.lower is None and x.upper is None and x.step is None  # noqa
            if full(b) and not isinstance(a, ast.Slice):
                return ('row', to_z3(self.ev(a, st)))
            if full(a) and not isinstance(b, ast.Slice):
                return ('col', to_z3(self.ev(b, st)))
            if isinstance(a, ast.Slice) and not isinstance(b, ast.Slice) and a.step is None:
                lo = z3.IntVal(0) if a.lower is None else to_z3(self.ev(a.lower, st))
                hi = c.n0 if a.upper is None else to_z3(self.ev(a.upper, st))
                return ('colrange', lo, hi, to_z3(self.ev(b, st)))
            if not isinstance(a, ast.Slice) and not isinstance(b, ast.Slice):
                av = self.ev(a, st)
                if isinstance(av, Ref) and isinstance(st.content(av), (ArrC, SeqC)):
                    return ('colrows', av, to_z3(self.ev(b, st)))
                return ('elem', to_z3(av), to_z3(self.ev(b, st)))
        raise Unsupported('2-D subscript %s' % ast.unparse(sl))

    def load_sub(self, base, sl, st):
        if isinstance(base, Ref) and isinstance(st.content(base), Arr2C):
            c = st.content(base)
            k = self.sub2d(c, sl, st)
            j = fresh('k', I)
            if k[0] == 'row':
                return st.new_ref(ArrC(z3.Lambda([j], c.at(k[1], j)), c.n1, None), 'row')
            if k[0] == 'col':
                return st.new_ref(ArrC(z3.Lambda([j], c.at(j, k[1])), c.n0, None), 'col')
            return NR(c.at(k[1], k[2]))
        sl = self.project(sl)
        if isinstance(sl, ast.Constant) and sl.value is None and getattr(self.c, 'row_projection', False):
            return base          # x[:, None] on a projected scalar
        if isinstance(base, tuple) and len(base) == 2 and base[0] == 'objdict':
            key = self.ev(sl, st)
            h = self.c.calls.get('__objdict__')
            if h is not None:
                r = h(self, st, [base[1], key], {}, None)
                if r is not NotImplemented:
                    return r
            if isinstance(key, str):
                return self.getattr(base[1], key, st)
            raise Unsupported('__dict__ lookup with symbolic key')
        if isinstance(base, NR) and getattr(self.c, 'row_projection', False):
            return base
        if isinstance(base, Ref) and isinstance(st.content(base), ArrC) and not isinstance(sl, ast.Slice):
            iv = self.ev(sl, st)
            mask = None
            if isinstance(iv, tuple) and len(iv) == 2 and iv[0] == 'where-mask':
                mask = iv[1]
            elif isinstance(iv, Ref) and isinstance(st.content(iv), (ArrC, SeqC)):
                ic = st.content(iv)
                if isinstance(ic, ArrC) and ic.kind == 'bool':
                    mask = iv
                else:
                    # integer fancy indexing: gather (fresh array)
                    c = st.content(base)
                    k = fresh('k', I)
                    ix = z3.ToInt(ic.vals[k]) if isinstance(ic, ArrC) else (ic.arr[k] if z3.is_int(ic.arr[k]) else z3.ToInt(ic.arr[k]))
                    if getattr(self.c, 'check_bounds', True):
                        self.oblige(st, 'index-in-bounds[%s]' % ast.unparse(sl),
                                    z3.ForAll([k], z3.Implies(z3.And(k >= 0, k < ic.n), z3.And(ix >= 0, ix < c.n))),
                                    {'kind': 'IndexError'})
                    return st.new_ref(ArrC(z3.Lambda([k], c.vals[ix]), ic.n,
                                           None if c.nans is None else z3.Lambda([k], c.nans[ix]), kind=c.kind), 'gather')
            if mask is not None:
                return ('masked-view', base, mask)
        if isinstance(base, Ref):
            c = st.content(base)
            if isinstance(c, ListC):
                if isinstance(sl, ast.Slice):
                    lo = None if sl.lower is None else self.ev(sl.lower, st)
                    hi = None if sl.upper is None else self.ev(sl.upper, st)
                    if all(x is None or isinstance(x, int) for x in (lo, hi)):
                        return st.new_ref(ListC(c.items[lo:hi]), 'slice')
                    raise Unsupported('symbolic slice of python list')
                i = self.ev(sl, st)
                if isinstance(i, int):
                    return c.items[i]
                raise Unsupported('symbolic index into python list of known length')
            if isinstance(c, RowDictC):
                key = as_real(self.ev(sl, st)).val
                # lookup by key: supported for the first key (the only use in the code under contract)
                if getattr(self.c, 'check_bounds', True):
                    self.oblige(st, 'key-present[%s]' % ast.unparse(sl), z3.And(c.n > 0, key == c.keys[0]), {'kind': 'KeyError'})
                j = fresh('k', I)
                return st.new_ref(ArrC(z3.Lambda([j], c.rows(0, j)), c.width, None), 'row0')
            if isinstance(c, MapC):
                k = to_z3(self.ev(sl, st))
                if getattr(self.c, 'check_bounds', True):
                    self.oblige(st, 'key-present[%s]' % ast.unparse(sl), c.dom[k], {'kind': 'KeyError'})
                v = c.val[k]
                if v.sort().kind() == z3.Z3_UNINTERPRETED_SORT:
                    return Opaque(v)
                if z3.is_real(v):
                    return NR(v)
                return v
            if isinstance(c, DictC):
                k = self.ev(sl, st)
                if not isinstance(k, (str, int, tuple)):
                    raise Unsupported('symbolic dict key')
                if k not in c.items:
                    raise Unsupported('KeyError on concrete dict key %r' % (k,))
                return c.items[k]
            if isinstance(c, (ArrC, SeqC)) and not isinstance(sl, ast.Slice):
                so = self.ev(sl, st) if isinstance(sl, ast.AST) and isinstance(sl, (ast.Name, ast.Attribute, ast.Call)) else None
                if isinstance(so, Mark) and so.kind == 'slice':
                    lo, hi = to_z3(so.data[0]), to_z3(so.data[1])
                    lo = z3.ToInt(lo) if z3.is_real(lo) else lo
                    hi = z3.ToInt(hi) if z3.is_real(hi) else hi
                    if getattr(self.c, 'check_bounds', True):
                        self.oblige(st, 'slice-in-bounds[%s]' % ast.unparse(sl), z3.And(lo >= 0, lo <= hi, hi <= c.n), {'kind': 'IndexError'})
                    k = fresh('k', I)
                    if isinstance(c, ArrC):
                        return st.new_ref(ArrC(z3.Lambda([k], c.vals[k + lo]), hi - lo,
                                               None if c.nans is None else z3.Lambda([k], c.nans[k + lo]), kind=c.kind), 'slice')
                    return st.new_ref(SeqC(z3.Lambda([k], c.arr[k + lo]), hi - lo,
                                           None if c.nans is None else z3.Lambda([k], c.nans[k + lo])), 'slice')
            if isinstance(c, (ArrC, SeqC)):
                if isinstance(sl, ast.Slice) and sl.lower is None and sl.upper is None and sl.step is not None and \
                        self.ev(sl.step, st) == -1:
                    k = fresh('k', I)                       # x[::-1]: reversed copy / view
                    if isinstance(c, ArrC):
                        return st.new_ref(ArrC(z3.Lambda([k], c.vals[c.n - 1 - k]), c.n,
                                               None if c.nans is None else z3.Lambda([k], c.nans[c.n - 1 - k]), kind=c.kind), 'reversed')
                    return st.new_ref(SeqC(z3.Lambda([k], c.arr[c.n - 1 - k]), c.n,
                                           None if c.nans is None else z3.Lambda([k], c.nans[c.n - 1 - k])), 'reversed')
                if isinstance(sl, ast.Slice):
                    lo, hi = self.slice_bounds(sl, c.n, st)
                    if isinstance(c, ArrC):
                        k = fresh('k', I)
                        vals = z3.Lambda([k], c.vals[k + lo])
                        nans = None if c.nans is None else z3.Lambda([k], c.nans[k + lo])
                        return st.new_ref(ArrC(vals, hi - lo, nans), 'slice')      # NB: numpy basic slice is a view;
                    # python list slice copies
                    k = fresh('k', I)
                    return st.new_ref(SeqC(z3.Lambda([k], c.arr[k + lo]), hi - lo,
                                           None if c.nans is None else z3.Lambda([k], c.nans[k + lo])), 'slice')
                i = self.ev(sl, st)
                zi = self.norm_index(i, c.n)
                if getattr(self.c, 'check_bounds', True):
                    self.oblige(st, 'index-in-bounds[%s]' % (ast.unparse(sl) if isinstance(sl, ast.AST) else sl),
                                z3.And(zi >= 0, zi < c.n), {'kind': 'IndexError'})
                return self.elem(c, zi)
        if isinstance(base, (tuple, list)):
            i = self.ev(sl, st) if not isinstance(sl, ast.Slice) else None
            if isinstance(i, int):
                return base[i]
            if isinstance(sl, ast.Slice):
                lo = None if sl.lower is None else self.ev(sl.lower, st)
                hi = None if sl.upper is None else self.ev(sl.upper, st)
                return base[lo:hi]
        if isinstance(base, str) and not isinstance(sl, ast.Slice):
            k = self.ev(sl, st)
            if isinstance(k, int):
                return base[k]
        h = self.c.calls.get('__getitem__')
        if h is not None:
            r = h(self, st, [base, sl], {}, None)
            if r is not NotImplemented:
                return r
        if isinstance(base, Obj):
            # record-like object: field k lives at <path>.f<k>
            k = self.ev(sl, st)
            if isinstance(k, int):
                return st.load(base.path + '.f%d' % k)
        raise Unsupported('subscript load on %r' % (base,))

    def store_sub(self, base, sl, value, st):
        if isinstance(base, Ref) and isinstance(st.content(base), Arr2C):
            c = st.content(base)
            k = self.sub2d(c, sl, st)
            vc = st.content(value) if isinstance(value, Ref) else None

            def val_at(t):
                return vc.vals[t] if isinstance(vc, ArrC) else as_real(value).val
            if k[0] == 'row':
                f = lambda i, j, c=c, k=k: z3.If(i == k[1], val_at(j), c.at(i, j))  # noqa
            elif k[0] == 'col':
                f = lambda i, j, c=c, k=k: z3.If(j == k[1], val_at(i), c.at(i, j))  # noqa
            elif k[0] == 'colrange':
                f = lambda i, j, c=c, k=k: z3.If(z3.And(j == k[3], i >= k[1], i < k[2]), val_at(i - k[1]), c.at(i, j))  # noqa
            elif k[0] == 'colrows':
                # numpy fancy-index store  A[rows, col] = v : sequential stores, the last one to a row wins
                ic = st.content(k[1])
                ix = (lambda q: z3.ToInt(ic.vals[q])) if isinstance(ic, ArrC) else (lambda q: ic.arr[q] if z3.is_int(ic.arr[q]) else z3.ToInt(ic.arr[q]))
                F = z3.Function('scatter!%d' % len(self.obligations), I, I, R)
                q, q2, i_, j_ = fresh('q', I), fresh('q2', I), fresh('i', I), fresh('j', I)
                last = z3.Not(z3.Exists([q2], z3.And(q2 > q, q2 < ic.n, ix(q2) == ix(q))))
                st.assume(z3.ForAll([q], z3.Implies(z3.And(q >= 0, q < ic.n, last), F(ix(q), k[2]) == val_at(q))))
                st.assume(z3.ForAll([i_, j_], z3.Implies(z3.Or(j_ != k[2], z3.Not(z3.Exists([q], z3.And(q >= 0, q < ic.n, ix(q) == i_)))),
                                                          F(i_, j_) == c.at(i_, j_))))
                f = lambda i, j, F=F: F(i, j)  # noqa
            else:
                f = lambda i, j, c=c, k=k: z3.If(z3.And(i == k[1], j == k[2]), as_real(value).val, c.at(i, j))  # noqa
            st.set_content(base, Arr2C(f, c.n0, c.n1))
            return
        sl = self.project(sl)
        hk = self.c.calls.get('__store__')
        if hk is not None:
            hk(self, st, [base, sl, value], {}, None)
        if isinstance(base, tuple) and len(base) == 2 and base[0] == 'objdict':
            key = self.ev(sl, st)
            if isinstance(key, str):
                st.store(base[1].path + '.' + key, value)
                return
            raise Unsupported('__dict__ store with symbolic key')
        if isinstance(base, Ref):
            c = st.content(base)
            if isinstance(c, ListC):
                i = self.ev(sl, st)
                if isinstance(i, int):
                    items = list(c.items)
                    items[i] = value
                    st.set_content(base, ListC(items))
                    return
                raise Unsupported('symbolic index store into python list')
            if isinstance(c, RowDictC):
                key = as_real(self.ev(sl, st)).val
                vc = st.content(value)
                if not isinstance(vc, ArrC):
                    raise Unsupported('row-dict value')
                # new key (strictly later time stamp): appended as the last entry
                if getattr(self.c, 'check_bounds', True):
                    j = fresh('j', I)
                    self.oblige(st, 'new-key-not-present[%s]' % ast.unparse(sl),
                                z3.ForAll([j], z3.Implies(z3.And(j >= 0, j < c.n), c.keys[j] != key)), {'kind': 'overwrite'})
                n0 = c.n
                rows0, vals = c.rows, vc.vals
                st.set_content(base, RowDictC(z3.Store(c.keys, n0, key),
                                              lambda i, k, rows0=rows0, n0=n0, vals=vals: z3.If(i == n0, vals[k], rows0(i, k)),
                                              n0 + 1, z3.If(n0 == 0, vc.n, c.width)))
                return
            if isinstance(c, MapC):
                k = to_z3(self.ev(sl, st))
                v = value.val if isinstance(value, NR) else to_z3(value)
                st.set_content(base, MapC(z3.Store(c.dom, k, z3.BoolVal(True)), z3.Store(c.val, k, v),
                                          z3.If(c.dom[k], c.n, c.n + 1)))
                return
            if isinstance(c, DictC):
                k = self.ev(sl, st)
                if not isinstance(k, (str, int, tuple)):
                    raise Unsupported('symbolic dict key store')
                items = dict(c.items)
                items[k] = value
                st.set_content(base, DictC(items))
                return
            if isinstance(c, ArrC) and not isinstance(sl, ast.Slice):
                iv = self.ev(sl, st)
                mask = None
                if isinstance(iv, tuple) and len(iv) == 2 and iv[0] == 'where-mask':
                    mask = iv[1]
                elif isinstance(iv, Ref) and isinstance(st.content(iv), ArrC) and st.content(iv).kind == 'int':
                    # integer fancy-index store of a scalar: every addressed element is set (scatter)
                    ic = st.content(iv)
                    x = as_real(value)
                    k, j = fresh('k', I), fresh('j', I)
                    # named predicate "k is one of the addressed positions" (keeps the quantifier out of the array term)
                    HIT = z3.Function('addressed!%d' % len(self.obligations), I, Bo)
                    st.assume(z3.ForAll([k], HIT(k) == z3.Exists([j], z3.And(j >= 0, j < ic.n, z3.ToInt(ic.vals[j]) == k))))
                    st.ghost['last_scatter'] = HIT
                    hit = HIT(k)
                    vals = z3.Lambda([k], z3.If(hit, x.val, c.vals[k]))
                    nans = None if (c.nans is None and x.nan is False) else z3.Lambda([k], z3.If(hit, x.nanz(), c.nan_at(k)))
                    if getattr(self.c, 'check_bounds', True):
                        self.oblige(st, 'index-in-bounds[%s]' % ast.unparse(sl),
                                    z3.ForAll([j], z3.Implies(z3.And(j >= 0, j < ic.n), z3.And(
                                        z3.ToInt(ic.vals[j]) >= 0, z3.ToInt(ic.vals[j]) < c.n))), {'kind': 'IndexError'})
                    st.set_content(base, ArrC(vals, c.n, nans, kind=c.kind))
                    return
                elif isinstance(iv, Ref) and isinstance(st.content(iv), ArrC):
                    mask = iv        # boolean-mask indexing (masks are 0/1 arrays here)
                if mask is not None:
                    mc = st.content(mask)
                    k = fresh('k', I)
                    sel = z3.Or(mc.nan_at(k), mc.vals[k] != 0)
                    if isinstance(value, tuple) and len(value) == 3 and value[0] == 'masked-view':
                        # a[mask] = b[mask]: element-wise under the same mask
                        if value[2].loc != mask.loc:
                            raise Unsupported('masked assignment with a different mask on the right-hand side')
                        src = st.content(value[1])
                        vals = z3.Lambda([k], z3.If(sel, src.vals[k], c.vals[k]))
                        nans = None if (c.nans is None and src.nans is None) else \
                            z3.Lambda([k], z3.If(sel, src.nan_at(k), c.nan_at(k)))
                    else:
                        x = as_real(value)
                        vals = z3.Lambda([k], z3.If(sel, x.val, c.vals[k]))
                        nans = None if (c.nans is None and x.nan is False) else \
                            z3.Lambda([k], z3.If(sel, x.nanz(), c.nan_at(k)))
                    st.set_content(base, ArrC(vals, c.n, nans))
                    return
            if isinstance(c, ArrC):
                if isinstance(sl, ast.Slice):
                    lo, hi = self.slice_bounds(sl, c.n, st)
                    k = fresh('k', I)
                    inr = z3.And(k >= lo, k < hi)
                    if isinstance(value, Ref) and isinstance(st.content(value), (ArrC, SeqC)):
                        src = st.content(value)
                        sv = src.vals if isinstance(src, ArrC) else src.arr
                        vals = z3.Lambda([k], z3.If(inr, sv[k - lo], c.vals[k]))
                        sn = src.nans
                        if c.nans is not None or sn is not None:
                            nans = z3.Lambda([k], z3.If(inr, (sn[k - lo] if sn is not None else z3.BoolVal(False)), c.nan_at(k)))
                        else:
                            nans = None
                    else:
                        x = as_real(value)
                        vals = z3.Lambda([k], z3.If(inr, x.val, c.vals[k]))
                        nans = None if (c.nans is None and x.nan is False) else z3.Lambda([k], z3.If(inr, x.nanz(), c.nan_at(k)))
                    st.set_content(base, ArrC(vals, c.n, nans))
                    return
                i = self.norm_index(self.ev(sl, st), c.n)
                x = as_real(value)
                nans = None if (c.nans is None and x.nan is False) else z3.Store(
                    c.nans if c.nans is not None else z3.K(I, z3.BoolVal(False)), i, x.nanz())
                st.set_content(base, ArrC(z3.Store(c.vals, i, x.val), c.n, nans))
                return
            if isinstance(c, SeqC):
                if isinstance(sl, ast.Slice):
                    # python list slice assignment: bounds are clamped to [0, n]; the slice is replaced by the elements of the
                    # right-hand side (the length changes when the sizes differ)
                    if not (isinstance(value, Ref) and isinstance(st.content(value), SeqC)) or c.nans is not None:
                        raise Unsupported('slice store into sequence')
                    src = st.content(value)
                    if src.nans is not None or src.arr.sort() != c.arr.sort():
                        raise Unsupported('slice store into sequence (element kinds differ)')
                    lo, hi = self.slice_bounds(sl, c.n, st)
                    if z3.is_real(lo):
                        lo = z3.ToInt(lo)
                    if z3.is_real(hi):
                        hi = z3.ToInt(hi)
                    clamp = lambda x: z3.If(x < 0, z3.If(c.n + x < 0, z3.IntVal(0), c.n + x), z3.If(x > c.n, c.n, x))      # noqa
                    lo = clamp(lo)
                    hi = clamp(hi)
                    hi = z3.If(hi < lo, lo, hi)
                    k = fresh('k', I)
                    arr = z3.Lambda([k], z3.If(k < lo, c.arr[k], z3.If(k < lo + src.n, src.arr[k - lo], c.arr[k - src.n + (hi - lo)])))
                    st.set_content(base, SeqC(arr, c.n - (hi - lo) + src.n, None))
                    return
                i = self.norm_index(self.ev(sl, st), c.n)
                if c.nans is not None or isinstance(value, NR):
                    x = as_real(value)
                    nans = None if (c.nans is None and x.nan is False) else z3.Store(
                        c.nans if c.nans is not None else z3.K(I, z3.BoolVal(False)), i, x.nanz())
                    st.set_content(base, SeqC(z3.Store(c.arr, i, x.val), c.n, nans))
                else:
                    st.set_content(base, SeqC(z3.Store(c.arr, i, to_z3(value)), c.n, None))
                return
        h = self.c.calls.get('__setitem__')
        if h is not None:
            h(self, st, [base, sl, value], {}, None)
            return
        raise Unsupported('subscript store on %r' % (base,))

    # ------------------------------------------------------------------ expressions
    def truth(self, v, st):
        if isinstance(v, bool):
            return v
        if v is None:
            return False
        if isinstance(v, (int, float)):
            return v != 0
        if isinstance(v, str):
            return len(v) > 0
        if isinstance(v, NR):
            return z3.Or(v.nanz(), v.val != 0) if v.nan is not False else v.val != 0
        if isinstance(v, MaybeNone):
            return z3.Not(v.isnone)
        if isinstance(v, Opaque) and v.term.sort() == TStr.sort:
            return v.term != TStr.lit('')
        if isinstance(v, (Obj, Func)):
            return True
        if isinstance(v, Method):
            # an attribute the contract does not declare: it may be data of any value, not necessarily a (truthy) bound method
            raise Unsupported('truth value of the undeclared attribute %s' % v.name)
        if isinstance(v, (tuple, list)):
            return len(v) > 0
        if isinstance(v, Ref):
            c = st.content(v)
            if isinstance(c, ListC):
                return len(c.items) > 0
            if isinstance(c, DictC):
                return len(c.items) > 0
            if isinstance(c, (SeqC, MapC, RowDictC)):
                return c.n > 0
            if isinstance(c, ArrC) and z3.is_int_value(c.n) and c.n.as_long() == 1:
                return z3.Or(c.nan_at(0), c.vals[0] != 0)
            raise Unsupported('truth value of an array')
        if z3.is_expr(v):
            if z3.is_bool(v):
                return v
            return v != 0
        raise Unsupported('truth of %r' % (v,))

    def ev(self, n, st):
        if isinstance(n, ast.Constant):
            return n.value
        if isinstance(n, ast.Name):
            if n.id in st.env:
                return st.env[n.id]
            if n.id in self.c.globals:
                return self.c.globals[n.id]
            if n.id in ('True', 'False', 'None'):
                return {'True': True, 'False': False, 'None': None}[n.id]
            if n.id in BUILTINS:
                return Func(n.id)
            if n.id in EXC_PARENTS:
                return Func('exc:' + n.id)
            if n.id in ('np', 'numpy'):
                return Module('np')
            raise Unsupported('unbound name %s' % n.id)
        if isinstance(n, ast.Attribute):
            base = self.ev(n.value, st)
            return self.getattr(base, n.attr, st, n)
        if isinstance(n, ast.BinOp):
            return self.binop(n.op, self.ev(n.left, st), self.ev(n.right, st), st)
        if isinstance(n, ast.UnaryOp):
            v = self.ev(n.operand, st)
            if isinstance(n.op, ast.Not):
                return znot(self.truth(v, st))
            if isinstance(n.op, ast.USub):
                if isinstance(v, (int, float)) and not isinstance(v, bool):
                    return -v
                if is_intlike(v):
                    return -v
                if isinstance(v, Ref):
                    return self.arr_unary(lambda x: NR(-x.val, x.nan), st.content(v), st)
                x = as_real(v)
                return NR(-x.val, x.nan)
            if isinstance(n.op, ast.UAdd):
                return v
            if isinstance(n.op, ast.Invert):
                return znot(self.truth(v, st))
        if isinstance(n, ast.BoolOp):
            # short-circuit: operand k is evaluated under the truth (And) / falsity (Or) of operands 0..k-1, so that
            # obligations raised while evaluating it (index bounds, call preconditions) carry that guard
            is_and = isinstance(n.op, ast.And)
            ts = []
            npush = 0
            try:
                for v in n.values:
                    g0 = dict(st.ghost) if npush else None
                    w0 = set(st.writes) if (npush and st.writes is not None) else None
                    x = self.ev(v, st)
                    if g0 is not None and (_ghost_changed(g0, st.ghost) or (w0 is not None and st.writes != w0)):
                        # the operand is only evaluated when the operands before it did not decide the result; an effect (a recorded
                        # call, a write) under a symbolic guard would need a fork, which expressions do not have
                        raise Unsupported('call with effects inside a short-circuit operand guarded by a symbolic condition (line %d)' % getattr(n, 'lineno', 0))
                    t = self.truth(x, st)
                    ts.append(t)
                    if isinstance(t, bool):
                        if t != is_and:
                            break          # decided: remaining operands are not evaluated
                        continue
                    st.pc.append(t if is_and else z3.Not(t))
                    npush += 1
            finally:
                for _ in range(npush):
                    st.pc.pop()
            return zand(*ts) if is_and else zor(*ts)
        if isinstance(n, ast.Compare):
            left = self.ev(n.left, st)
            res = []
            for op, rn in zip(n.ops, n.comparators):
                right = self.ev(rn, st)
                res.append(self.compare(op, left, right, st))
                left = right
            return zand(*res)
        if isinstance(n, ast.IfExp):
            c = self.truth(self.ev(n.test, st), st)
            if isinstance(c, bool):
                return self.ev(n.body if c else n.orelse, st)
            g0 = dict(st.ghost)
            w0 = set(st.writes) if st.writes is not None else None
            st.pc.append(c)
            try:
                a = self.ev(n.body, st)
            finally:
                st.pc.pop()
            st.pc.append(z3.Not(c))
            try:
                b = self.ev(n.orelse, st)
            finally:
                st.pc.pop()
            if _ghost_changed(g0, st.ghost) or (w0 is not None and st.writes != w0):
                # only one branch of a conditional expression is evaluated; an effect in a branch chosen by a symbolic condition would need a fork
                raise Unsupported('call with effects inside a conditional expression with a symbolic condition (line %d)' % getattr(n, 'lineno', 0))
            if isinstance(a, Ref) and isinstance(b, Ref):
                ca, cb = st.content(a), st.content(b)
                if isinstance(ca, ArrC) and isinstance(cb, ArrC):
                    anyn = ca.nans is not None or cb.nans is not None
                    kf = z3.K(I, z3.BoolVal(False))
                    return st.new_ref(ArrC(z3.If(c, ca.vals, cb.vals), z3.If(c, ca.n, cb.n),
                                           z3.If(c, ca.nans if ca.nans is not None else kf,
                                                 cb.nans if cb.nans is not None else kf) if anyn else None), 'ifexp')
            return self.ite(c, a, b)
        if isinstance(n, ast.Call):
            if self.is_pure_call(n):
                return None
            r = self.call(n, st)
            if isinstance(r, Outcomes):
                raise Unsupported('forking call %s inside an expression (line %d)' % (ast.unparse(n.func), n.lineno))
            return r
        if isinstance(n, ast.Subscript):
            return self.load_sub(self.ev(n.value, st), n.slice, st)
        if isinstance(n, ast.Tuple):
            return tuple(self.ev(e, st) for e in n.elts)
        if isinstance(n, ast.List):
            return st.new_ref(ListC([self.ev(e, st) for e in n.elts]), 'list')
        if isinstance(n, ast.Dict):
            return st.new_ref(DictC({self.ev(k, st): self.ev(v, st) for k, v in zip(n.keys, n.values)}), 'dict')
        if isinstance(n, ast.JoinedStr):
            parts = []
            for v in n.values:
                if isinstance(v, ast.Constant):
                    parts.append(str(v.value))
                elif isinstance(v, ast.FormattedValue) and v.format_spec is None and v.conversion == -1:
                    try:
                        x = self.ev(v.value, st)
                    except Unsupported:
                        x = None
                    if isinstance(x, (str, int)) and not isinstance(x, bool):
                        parts.append(str(x))
                    else:
                        parts = None
                        break
                else:
                    parts = None
                    break
            if parts is not None:
                return ''.join(parts)
            # symbolic parts: an uninterpreted function of the formatted values, named by the template
            tmpl, vals = [], []
            for v in n.values:
                if isinstance(v, ast.Constant):
                    tmpl.append(str(v.value))
                else:
                    tmpl.append('{}')
                    try:
                        x = self.ev(v.value, st)
                        vals.append(TStr.lit(x) if isinstance(x, str) else to_z3(x))
                    except (Unsupported, ContractError):
                        return Opaque(fresh('fstr', TStr.sort))
            if not vals:
                return ''.join(tmpl)
            f = z3.Function('fstr:' + ''.join(tmpl), *([v.sort() for v in vals] + [TStr.sort]))
            return Opaque(f(*vals))
        if isinstance(n, ast.Slice):
            return n
        if isinstance(n, ast.ListComp):
            return self.listcomp(n, st)
        if isinstance(n, ast.Lambda):
            return Func('lambda')
        raise Unsupported('expression %s (line %d)' % (type(n).__name__, getattr(n, 'lineno', 0)))

    def listcomp(self, n, st):
        """[elt for x in it]: concrete iterables are unrolled; symbolic sequences give a pointwise definition
        (callee handlers used inside must be functional; a handler may register a raise condition for element k)"""
        if len(n.generators) != 1 or n.generators[0].is_async:
            raise Unsupported('nested comprehension')
        g = n.generators[0]
        seq = self.concrete_iter(g.iter, st)
        if seq is not None:
            out = []
            for item in seq:
                self.assign(g.target, item, st)
                keep = True
                for cond in g.ifs:
                    t = self.truth(self.ev(cond, st), st)
                    if not isinstance(t, bool):
                        raise Unsupported('symbolic filter in comprehension')
                    keep = keep and t
                if keep:
                    out.append(self.ev(n.elt, st))
            return st.new_ref(ListC(out), 'listcomp')
        k = fresh('ck', I)
        if isinstance(g.iter, ast.Call) and ast.unparse(g.iter.func) == 'range' and len(g.iter.args) == 1 and not g.iter.keywords:
            class _Range:        # range(n): element k is k
                pass
            c = _Range()
            c.n = to_z3(self.ev(g.iter.args[0], st))
            elem_k = k
        else:
            sv = self.ev(g.iter, st)
            if isinstance(sv, MaybeNone):
                self.oblige(st, 'iterated-value-is-not-None[%s]' % ast.unparse(g.iter), z3.Not(sv.isnone), {})
                sv = sv.value
            if not (isinstance(sv, Ref) and isinstance(st.content(sv), (SeqC, ArrC))):
                raise Unsupported('comprehension over %r' % (sv,))
            c = st.content(sv)
            elem_k = None
        saved_env = dict(st.env)
        g0 = dict(st.ghost)
        prev = getattr(st, 'in_comprehension', None)
        st.in_comprehension = (k, c.n)
        st.comp_raises = getattr(st, 'comp_raises', [])
        st.pc.append(z3.And(k >= 0, k < c.n))      # obligations raised for element k carry its range
        keep = None
        try:
            self.assign(g.target, self.elem(c, k) if elem_k is None else elem_k, st)
            if g.ifs:
                keep = zand(*[zb(self.truth(self.ev(cond, st), st)) for cond in g.ifs])
            v = self.ev(n.elt, st)
        finally:
            st.pc.pop()
            st.in_comprehension = prev
            st.env = saved_env
        if _ghost_changed(g0, st.ghost):
            # the element expression is evaluated once per element (zero or many times); a recorded effect would be counted once
            raise Unsupported('call with effects inside a comprehension over a symbolic sequence (line %d)' % getattr(n, 'lineno', 0))
        if keep is not None:
            from .symval import FiltC
            ev_ = v.val if isinstance(v, NR) else to_z3(v)
            return st.new_ref(FiltC(c.n, z3.Lambda([k], ev_), z3.Lambda([k], zb(keep))), 'filtered-listcomp')
        if isinstance(v, NR):
            return st.new_ref(SeqC(z3.Lambda([k], v.val), c.n, None if v.nan is False else z3.Lambda([k], v.nanz())), 'listcomp')
        return st.new_ref(SeqC(z3.Lambda([k], to_z3(v)), c.n, None), 'listcomp')

    def ite(self, c, a, b):
        if isinstance(a, NR) or isinstance(b, NR) or isinstance(a, float) or isinstance(b, float):
            x, y = as_real(a), as_real(b)
            return NR(z3.If(c, x.val, y.val), z3.If(c, x.nanz(), y.nanz()) if (x.nan is not False or y.nan is not False) else False)
        if isinstance(a, str) and isinstance(b, str):
            return Opaque(z3.If(c, TStr.lit(a), TStr.lit(b)))
        try:
            r = z3.If(c, to_z3(a), to_z3(b))
        except Exception:
            raise Unsupported('if-expression over %r / %r' % (a, b))
        if r.sort().kind() == z3.Z3_UNINTERPRETED_SORT:
            return Opaque(r)
        return r

    def getattr(self, base, attr, st, node=None):
        if isinstance(base, Obj) and attr == '__dict__':
            return ('objdict', base)
        if isinstance(base, Obj):
            path = st.canon(base.path + '.' + attr)
            props = getattr(self.c, 'properties', None)
            if props and path in props:
                return props[path](self, st)
            if st.has(path):
                return st.load(path)
            pre = path + '.'
            if any(k.startswith(pre) for k in st.schema) or any(k.startswith(pre) for k in st.heap) or \
                    any(k.startswith(pre) for k in self.c.calls):
                return Obj(path)
            return Method(base, attr)
        if isinstance(base, Module):
            full = base.name + '.' + attr
            if full in ('np.nan', 'numpy.nan'):
                return NR(0, True)
            if full in ('np.inf',):
                raise Unsupported('np.inf')
            if full in ('np.pi', 'math.pi'):
                return NR(z3.Real('pi'))
            return Func(full) if (full in self.externals or full in self.c.calls) else Module(full)
        if isinstance(base, MaybeNone):
            return self.getattr(base.value, attr, st, node)
        if isinstance(base, Opaque) and attr in getattr(self.c, 'value_attrs', {}):
            return self.c.value_attrs[attr](self, st, base)       # attribute of an opaque value, described by the contract
        if isinstance(base, Ref) and isinstance(st.content(base), Arr2C):
            c2 = st.content(base)
            if attr == 'T':
                return st.new_ref(Arr2C(lambda i, j, c2=c2: c2.at(j, i), c2.n1, c2.n0), 'transpose')
            if attr == 'ndim':
                return 2
        if isinstance(base, Ref) and isinstance(st.content(base), ArrC):
            if attr == 'ndim':
                return 1
            if attr == 'size':
                return st.content(base).n
        return Method(base, attr)

    # -- arithmetic
    def binop(self, op, a, b, st):
        if isinstance(a, Ref) or isinstance(b, Ref):
            ca = st.content(a) if isinstance(a, Ref) else None
            cb = st.content(b) if isinstance(b, Ref) else None
            if isinstance(ca, Arr2C) or isinstance(cb, Arr2C):
                if isinstance(op, ast.MatMult):
                    h = self.c.calls.get('__matmul__')
                    if h is None:
                        raise Unsupported('matrix product needs a contract')
                    return h(self, st, [a, b], {}, None)
                m = ca if isinstance(ca, Arr2C) else cb

                def f(i, j, ca=ca, cb=cb, a=a, b=b):
                    x = NR(ca.at(i, j)) if isinstance(ca, Arr2C) else (ca.at(j) if isinstance(ca, ArrC) else as_real(a))
                    y = NR(cb.at(i, j)) if isinstance(cb, Arr2C) else (cb.at(j) if isinstance(cb, ArrC) else as_real(b))
                    return as_real(self.binop(op, x, y, st)).val
                return st.new_ref(Arr2C(f, m.n0, m.n1), 'arith2d')
            if isinstance(ca, ArrC) or isinstance(cb, ArrC):
                return st.new_ref(self.arr_binop(op, ca if isinstance(ca, ArrC) else a, cb if isinstance(cb, ArrC) else b, st),
                                  'arith')
            if isinstance(ca, ListC) and isinstance(cb, ListC) and isinstance(op, ast.Add):
                return st.new_ref(ListC(ca.items + cb.items), 'list')
            if isinstance(op, ast.Mult) and isinstance(ca, ListC) and len(ca.items) == 1 and cb is None and is_intlike(b) and not isinstance(b, bool):
                # [x] * n: n copies of x (none when n <= 0)
                x = ca.items[0]
                xt = x.val if isinstance(x, NR) else to_z3(x)
                nn = to_z3(b)
                return st.new_ref(SeqC(z3.K(I, xt), z3.If(nn > 0, nn, z3.IntVal(0)), None), 'repeat')
            raise Unsupported('binary operation on %r, %r' % (ca, cb))
        if isinstance(a, (int, float)) and isinstance(b, (int, float)) and not isinstance(a, bool) and not isinstance(b, bool):
            try:
                return PYOPS[type(op)](a, b)
            except ZeroDivisionError:
                raise Unsupported('constant division by zero')
        if isinstance(a, str) or isinstance(b, str):
            if isinstance(a, str) and isinstance(b, str) and isinstance(op, ast.Add):
                return a + b
            if isinstance(op, ast.Add) and all(isinstance(x, str) or (isinstance(x, Opaque) and x.term.sort() == TStr.sort)
                                               for x in (a, b)):
                return Opaque(fresh('concat', TStr.sort))
            if isinstance(op, ast.Mod):
                return Opaque(fresh('fmt', TStr.sort))
            raise Unsupported('string arithmetic')
        if isinstance(op, ast.Add) and all(isinstance(x, Opaque) and x.term.sort() == TStr.sort for x in (a, b)):
            return Opaque(fresh('concat', TStr.sort))
        if isinstance(a, Opaque) or isinstance(b, Opaque):
            h = self.c.calls.get('__binop__')
            if h is not None:
                return h(self, st, [op, a, b], {}, None)
            raise Unsupported('arithmetic on opaque values')
        if is_intlike(a) and is_intlike(b) and not isinstance(op, ast.Div):
            x, y = to_z3(a), to_z3(b)
            if isinstance(op, ast.Add):
                return x + y
            if isinstance(op, ast.Sub):
                return x - y
            if isinstance(op, ast.Mult):
                return x * y
            if isinstance(op, ast.FloorDiv):
                return x / y          # z3 int division = floor for positive divisor (stated assumption)
            if isinstance(op, ast.Mod):
                return x % y
            if isinstance(op, ast.Pow) and isinstance(b, int) and b >= 0:
                r = z3.IntVal(1)
                for _ in range(b):
                    r = r * x
                return r
            raise Unsupported('int op %s' % type(op).__name__)
        x, y = as_real(a), as_real(b)
        nan = zor(x.nan, y.nan)
        if isinstance(op, ast.Add):
            return NR(x.val + y.val, nan)
        if isinstance(op, ast.Sub):
            return NR(x.val - y.val, nan)
        if isinstance(op, ast.Mult):
            return NR(x.val * y.val, nan)
        if isinstance(op, ast.Div):
            return NR(x.val / y.val, nan)
        if isinstance(op, ast.Pow):
            if isinstance(b, int) and 0 <= b <= 4:
                r = z3.RealVal(1)
                for _ in range(b):
                    r = r * x.val
                return NR(r, nan)
            raise Unsupported('power with non-small-integer exponent')
        if isinstance(op, ast.Mod):
            raise Unsupported('float modulo')
        raise Unsupported('binary op %s' % type(op).__name__)

    def arr_binop(self, op, a, b, st):
        """elementwise numpy arithmetic with scalar broadcasting; a or b is ArrC"""
        def comp(x):
            if isinstance(x, ArrC):
                return x
            if isinstance(x, Ref):
                c = st.content(x)
                if isinstance(c, ArrC):
                    return c
                if isinstance(c, SeqC):
                    return ArrC(c.arr, c.n, c.nans)
                raise Unsupported('array op with %r' % (c,))
            return as_real(x)
        a, b = comp(a), comp(b)
        n = a.n if isinstance(a, ArrC) else b.n
        k = fresh('k', I)

        def at(x):
            return x.at(k) if isinstance(x, ArrC) else x
        r = self.binop(op, at(a), at(b), st)
        r = as_real(r)
        nans = None if r.nan is False else z3.Lambda([k], r.nanz())
        return ArrC(z3.Lambda([k], r.val), n, nans)

    def arr_unary(self, f, c, st):
        k = fresh('k', I)
        r = f(c.at(k))
        return st.new_ref(ArrC(z3.Lambda([k], r.val), c.n, None if r.nan is False else z3.Lambda([k], r.nanz())), 'unary')

    def compare(self, op, a, b, st):
        hk = self.c.calls.get('__compare__')
        if hk is not None:
            r = hk(self, st, [op, a, b], {}, None)
            if r is not NotImplemented:
                return r
        if isinstance(op, (ast.Is, ast.IsNot)):
            r = self.is_(a, b)
            return r if isinstance(op, ast.Is) else znot(r)
        if isinstance(op, (ast.In, ast.NotIn)):
            r = self.contains(b, a, st)
            return r if isinstance(op, ast.In) else znot(r)
        if isinstance(a, MaybeNone) or isinstance(b, MaybeNone):
            if isinstance(op, (ast.Eq, ast.NotEq)):
                ma, mb = (a, b) if isinstance(a, MaybeNone) else (b, a)
                if isinstance(mb, MaybeNone):
                    inner = self.compare(ast.Eq(), ma.value, mb.value, st)
                    r = z3.Or(z3.And(ma.isnone, mb.isnone), z3.And(z3.Not(ma.isnone), z3.Not(mb.isnone), zb(inner)))
                elif mb is None:
                    r = ma.isnone
                else:
                    r = z3.And(z3.Not(ma.isnone), zb(self.compare(ast.Eq(), ma.value, mb, st)))
                return r if isinstance(op, ast.Eq) else z3.Not(r)
            # ordering: only reached on paths where the value was established to be a number
            a = a.value if isinstance(a, MaybeNone) else a
            b = b.value if isinstance(b, MaybeNone) else b
        if a is None or b is None:
            if isinstance(op, ast.Eq):
                return self.is_(a, b)
            if isinstance(op, ast.NotEq):
                return znot(self.is_(a, b))
        pyconst = (int, float, str, bool, tuple)
        if isinstance(a, pyconst) and isinstance(b, pyconst) and not (isinstance(a, float) and a != a):
            return PYCMP[type(op)](a, b)
        if isinstance(a, str) or isinstance(b, str) or isinstance(a, Opaque) or isinstance(b, Opaque):
            x, y = to_z3(a), to_z3(b)
            if x.sort() != y.sort():
                return isinstance(op, ast.NotEq)
            if isinstance(op, ast.Eq):
                return x == y
            if isinstance(op, ast.NotEq):
                return x != y
            raise Unsupported('ordering of opaque values')
        if isinstance(a, bool) or isinstance(b, bool) or (z3.is_expr(a) and z3.is_bool(a)) or (z3.is_expr(b) and z3.is_bool(b)):
            if isinstance(op, (ast.Eq, ast.NotEq)):
                xa = a if (isinstance(a, bool) or (z3.is_expr(a) and z3.is_bool(a))) else self.truth_eq_num(a)
                xb = b if (isinstance(b, bool) or (z3.is_expr(b) and z3.is_bool(b))) else self.truth_eq_num(b)
                if xa is not None and xb is not None:
                    r = zb(xa) == zb(xb)
                    return r if isinstance(op, ast.Eq) else z3.Not(r)
        if is_intlike(a) and is_intlike(b):
            return ZCMP[type(op)](to_z3(a), to_z3(b))
        if isinstance(a, Ref) or isinstance(b, Ref):
            ca = st.content(a) if isinstance(a, Ref) else None
            cb = st.content(b) if isinstance(b, Ref) else None
            if isinstance(ca, ArrC) or isinstance(cb, ArrC):
                n = ca.n if isinstance(ca, ArrC) else cb.n
                k = fresh('k', I)
                x = ca.at(k) if isinstance(ca, ArrC) else as_real(a)
                y = cb.at(k) if isinstance(cb, ArrC) else as_real(b)
                c = self.compare(op, x, y, st)
                return st.new_ref(ArrC(z3.Lambda([k], z3.If(zb(c), z3.RealVal(1), z3.RealVal(0))), n, None, kind='bool'), 'cmp')
            raise Unsupported('comparison of arrays/lists')
        x, y = as_real(a), as_real(b)
        core = ZCMP[type(op)](x.val, y.val)
        if x.nan is False and y.nan is False:
            return core
        if isinstance(op, ast.NotEq):
            return z3.Or(x.nanz(), y.nanz(), core)
        return z3.And(z3.Not(x.nanz()), z3.Not(y.nanz()), core)

    @staticmethod
    def truth_eq_num(v):
        # `x == True` for numeric x: x == 1
        if isinstance(v, int):
            return v == 1
        if z3.is_expr(v) and z3.is_int(v):
            return v == 1
        if isinstance(v, NR):
            return v.val == 1
        return None

    def is_(self, a, b):
        if isinstance(a, MaybeNone) and b is None:
            return a.isnone
        if isinstance(b, MaybeNone) and a is None:
            return b.isnone
        if a is None or b is None:
            return a is b
        if isinstance(a, bool) and isinstance(b, bool):
            return a == b
        if isinstance(a, bool) or isinstance(b, bool):
            # `x is True/False` with symbolic bool x
            x, c = (b, a) if isinstance(a, bool) else (a, b)
            if z3.is_expr(x) and z3.is_bool(x):
                return x if c else z3.Not(x)
            return False   # identity of a non-bool object with True/False
        if isinstance(a, Ref) and isinstance(b, Ref):
            return a.loc == b.loc
        if isinstance(a, Obj) and isinstance(b, Obj):
            return a.path == b.path
        raise Unsupported('identity test on %r, %r' % (a, b))

    def contains(self, container, item, st):
        if isinstance(container, (tuple, list)):
            if all(isinstance(x, (str, int, float)) for x in container):
                if isinstance(item, (str, int, float)):
                    return item in container
                return zor(*[self.compare(ast.Eq(), item, x, st) for x in container])
        if isinstance(container, Ref):
            c = st.content(container)
            if isinstance(c, DictC) and isinstance(item, (str, int)):
                return item in c.items
            if isinstance(c, ListC):
                return zor(*[zb(self.compare(ast.Eq(), item, x, st)) for x in c.items])
            if isinstance(c, MapC):
                return c.dom[to_z3(item)]
            if isinstance(c, SeqC):
                k = fresh('k', I)
                it = to_z3(item)
                el = c.arr[k]
                if z3.is_real(el) and z3.is_int(it):
                    it = z3.ToReal(it)
                return z3.Exists([k], z3.And(k >= 0, k < c.n, el == it))
        if isinstance(container, str) and isinstance(item, str):
            return item in container
        h = self.c.calls.get('__contains__')
        if h is not None:
            return h(self, st, [container, item], {}, None)
        raise Unsupported('membership test on %r' % (container,))

    # ------------------------------------------------------------------ calls
    def call(self, node, st):
        fnode = node.func
        skip = getattr(self.c, 'skip_calls', ())
        if skip and ast.unparse(fnode) in skip:
            return Opaque(fresh('skipped', TStr.sort))       # diagnostics only: arguments are not evaluated
        # receiver & name resolution
        if isinstance(fnode, ast.Attribute):
            base = self.ev(fnode.value, st)
            name = fnode.attr
            args, kwargs = self.call_args(node, st)
            if isinstance(base, Obj):
                key = st.canon(base.path + '.' + name)
                h = self.lookup(key)
                if h is None:
                    # method on a heap attribute that holds a value (e.g. self.mis.append)
                    if st.has(key):
                        return self.call_value(st.load(key), args, kwargs, st, node)
                    raise Unsupported('call to %s has no contract' % key)
                return h(self, st, args, kwargs, node)
            if isinstance(base, Module):
                key = base.name + '.' + name
                h = self.lookup(key)
                if h is None:
                    raise Unsupported('call to external %s has no contract' % key)
                return h(self, st, args, kwargs, node)
            if isinstance(base, Func):
                key = base.name + '.' + name
                h = self.lookup(key)
                if h is None:
                    raise Unsupported('call to %s has no contract' % key)
                return h(self, st, args, kwargs, node)
            return self.method_on_value(base, name, args, kwargs, st, node)
        if isinstance(fnode, ast.Name) and fnode.id == 'isinstance' and fnode.id not in st.env:
            return _isinstance(self, st, [self.ev(node.args[0], st)], {}, node)
        f = self.ev(fnode, st)
        args, kwargs = self.call_args(node, st)
        return self.call_value(f, args, kwargs, st, node)

    def call_args(self, node, st):
        args = []
        for a in node.args:
            if isinstance(a, ast.Starred):
                v = self.ev(a.value, st)
                if not isinstance(v, tuple):
                    if getattr(self.c, 'star_ok', False):
                        args.append(('star', v))      # handed to the callee's contract as one opaque argument pack
                        continue
                    raise Unsupported('star-args of a non-tuple')
                args.extend(v)
            else:
                args.append(self.ev(a, st))
        kwargs = {}
        for k in node.keywords:
            if k.arg:
                kwargs[k.arg] = self.ev(k.value, st)
            else:
                v = self.ev(k.value, st)
                if isinstance(v, Ref) and isinstance(st.content(v), DictC) and not (
                        getattr(self.c, 'star_ok', False) and v is st.env.get('kwargs')):
                    kwargs.update(st.content(v).items)
                elif getattr(self.c, 'star_ok', False):
                    kwargs['**'] = v              # handed to the callee's contract as one opaque keyword pack
                else:
                    raise Unsupported('**kwargs of a non-dict')
        return args, kwargs

    def call_local(self, f, args, kwargs, st):
        """inline a nested helper function: its body is part of the verified text (closure = enclosing locals)"""
        fn = f.node
        saved = st.env
        env = dict(saved)
        names = [a.arg for a in fn.args.args]
        pos = fn.args.args
        for a, d in zip(pos[len(pos) - len(fn.args.defaults):], fn.args.defaults):
            env[a.arg] = self.ev(d, st)
        for nm, v in zip(names, args):
            env[nm] = v
        env.update(kwargs)
        st.env = env
        outs = self.block(fn.body, st)
        res = []
        for s2, kind, payload in outs:
            # locals of the helper do not leak; enclosing names it re-bound are not propagated (no nonlocal in the subset)
            s2.env = dict(saved) if s2 is not st else saved
            if kind in (None, 'return'):
                res.append((None, 'value', (s2, payload if kind == 'return' else None)))
            elif kind == 'raise':
                res.append((None, 'raise', (s2, payload)))
            else:
                raise Unsupported('%s escapes a nested function' % kind)
        st.env = saved
        if len(res) == 1 and res[0][1] == 'value' and res[0][2][0] is st:
            return res[0][2][1]
        return Outcomes(res)

    def lookup(self, key):
        if key in self.c.calls:
            return self.c.calls[key]
        for pat, h in self.c.calls.items():
            if '*' in pat and fnmatch.fnmatchcase(key, pat):
                return h
        return self.externals.get(key)

    def call_value(self, f, args, kwargs, st, node):
        if isinstance(f, LocalFunc):
            return self.call_local(f, args, kwargs, st)
        if isinstance(f, Func):
            if f.name.startswith('exc:'):
                return ExcVal(f.name[4:], tuple(args))
            h = self.lookup(f.name)
            if h is not None:
                return h(self, st, args, kwargs, node)
            if f.name in BUILTINS:
                return BUILTINS[f.name](self, st, args, kwargs, node)
            raise Unsupported('call to %s has no contract' % f.name)
        if isinstance(f, Method):
            if isinstance(f.recv, Obj):
                key = st.canon(f.recv.path + '.' + f.name)
                h = self.lookup(key)
                if h is None:
                    raise Unsupported('call to %s has no contract' % key)
                return h(self, st, args, kwargs, node)
            return self.method_on_value(f.recv, f.name, args, kwargs, st, node)
        if isinstance(f, MaybeNone):
            raise Unsupported('call of optional callable')
        if isinstance(f, Mark) and self.c.calls.get('<mark>.__call__') is not None:
            return self.c.calls['<mark>.__call__'](self, st, [f] + list(args), kwargs, node)
        raise Unsupported('call of %r' % (f,))

    def method_on_value(self, base, name, args, kwargs, st, node):
        hook = self.c.calls.get('<value>.' + name)
        if hook is not None:
            r = hook(self, st, [base] + list(args), kwargs, node)
            if r is not NotImplemented:
                return r
        if isinstance(base, Coll):
            if name in ('values', 'items', 'keys'):
                return ('absiter', base, name)
            raise Unsupported('method %s on an abstract collection' % name)
        if isinstance(base, Ref) and isinstance(st.content(base), RowDictC):
            c = st.content(base)
            if name == 'keys':
                return st.new_ref(SeqC(c.keys, c.n, None), 'keys')
            if name == 'values':
                return ('rowiter', base)
            raise Unsupported('method %s on a row dict' % name)
        if isinstance(base, Ref):
            c = st.content(base)
            if isinstance(c, SeqC):
                if name == 'append':
                    v = args[0]
                    if c.nans is not None or isinstance(v, NR) or isinstance(v, (int, float)) and z3.is_real(c.arr[0]):
                        x = as_real(v)
                        nans = None if (c.nans is None and x.nan is False) else z3.Store(
                            c.nans if c.nans is not None else z3.K(I, z3.BoolVal(False)), c.n, x.nanz())
                        st.set_content(base, SeqC(z3.Store(c.arr, c.n, x.val), c.n + 1, nans))
                    else:
                        st.set_content(base, SeqC(z3.Store(c.arr, c.n, to_z3(v)), c.n + 1, None))
                    return None
                if name == 'clear':
                    st.set_content(base, SeqC(c.arr, z3.IntVal(0), c.nans))
                    return None
                if name == 'extend' and isinstance(args[0], Ref) and isinstance(st.content(args[0]), (ArrC, SeqC)):
                    o = st.content(args[0])
                    oa = o.vals if isinstance(o, ArrC) else o.arr
                    if c.nans is not None or o.nans is not None:
                        raise Unsupported('extend of NaN-tracked sequences')
                    k = fresh('k', I)
                    st.set_content(base, SeqC(z3.Lambda([k], z3.If(k < c.n, c.arr[k], oa[k - c.n])), c.n + o.n, None))
                    return None
            if isinstance(c, ListC):
                if name == 'append':
                    st.set_content(base, ListC(c.items + [args[0]]))
                    return None
                if name == 'extend' and isinstance(args[0], Ref) and isinstance(st.content(args[0]), ListC):
                    st.set_content(base, ListC(c.items + st.content(args[0]).items))
                    return None
                if name == 'extend' and not c.items and isinstance(args[0], Ref) and isinstance(st.content(args[0]), SeqC):
                    o = st.content(args[0])
                    st.set_content(base, SeqC(o.arr, o.n, o.nans))      # [] extended by a sequence: a copy of that sequence
                    return None
                if name == 'clear':
                    st.set_content(base, ListC([]))
                    return None
            if isinstance(c, DictC):
                if name == 'get':
                    k = args[0]
                    if isinstance(k, (str, int)):
                        return c.items.get(k, args[1] if len(args) > 1 else None)
                if name in ('keys', 'values', 'items'):
                    if name == 'keys':
                        return tuple(c.items.keys())
                    if name == 'values':
                        return tuple(c.items.values())
                    return tuple((k, v) for k, v in c.items.items())
                if name == 'update' and args and isinstance(args[0], Ref) and isinstance(st.content(args[0]), DictC):
                    d = dict(c.items)
                    d.update(st.content(args[0]).items)
                    st.set_content(base, DictC(d))
                    return None
                if name == 'pop' and isinstance(args[0], (str, int)):
                    d = dict(c.items)
                    v = d.pop(args[0], args[1] if len(args) > 1 else None)
                    st.set_content(base, DictC(d))
                    return v
            if isinstance(c, ArrC):
                if name == 'copy':
                    return st.new_ref(ArrC(c.vals, c.n, c.nans), 'copy')
                if name == 'ravel' or name == 'flatten':
                    return st.new_ref(ArrC(c.vals, c.n, c.nans), 'ravel') if name == 'flatten' else base
                if name == 'any':
                    k = fresh('k', I)
                    return z3.Exists([k], z3.And(k >= 0, k < c.n, z3.Or(c.nan_at(k), c.vals[k] != 0)))
                if name == 'tolist':
                    return st.new_ref(SeqC(c.vals, c.n, c.nans), 'tolist')
                if name == 'fill':
                    x = as_real(args[0])
                    k = fresh('k', I)
                    st.set_content(base, ArrC(z3.K(I, x.val), c.n, None if x.nan is False else z3.K(I, x.nanz())))
                    return None
        if z3.is_expr(base) and z3.is_bool(base) and name in ('any', 'all'):
            return base
        if isinstance(base, bool) and name in ('any', 'all'):
            return base
        if isinstance(base, NR):
            if name == 'any':
                return self.truth(base, st)
            if name == 'tolist' or name == 'item':
                return base
        if isinstance(base, str):
            if name == 'lower':
                return base.lower()
            if name == 'upper':
                return base.upper()
            if name == 'format':
                return Opaque(fresh('fmt', TStr.sort))
            if name in ('startswith', 'endswith') and isinstance(args[0], str):
                return getattr(base, name)(args[0])
            if name in ('count',) and isinstance(args[0], str):
                return base.count(args[0])
            if name == 'split' and all(isinstance(a, str) for a in args):
                return st.new_ref(ListC(base.split(*args)), 'split')
            if name == 'strip' and not args:
                return base.strip()
        h = self.lookup('<value>.' + name)
        if h is not None:
            return h(self, st, [base] + args, kwargs, node)
        raise Unsupported('method %s on %r' % (name, base))



def _ghost_changed(a, b):
    if set(a) != set(b):
        return True
    for k in a:
        x, y = a[k], b[k]
        if x is y:
            continue
        if z3.is_expr(x) and z3.is_expr(y):
            if not x.eq(y):
                return True
            continue
        if isinstance(x, (int, bool, str, list, tuple, type(None))) and isinstance(y, (int, bool, str, list, tuple, type(None))):
            try:
                if x == y:
                    continue
            except Exception:      # noqa
                pass
        return True
    return False


import operator  # noqa: E402

PYOPS = {ast.Add: operator.add, ast.Sub: operator.sub, ast.Mult: operator.mul, ast.Div: operator.truediv,
         ast.FloorDiv: operator.floordiv, ast.Mod: operator.mod, ast.Pow: operator.pow}
PYCMP = {ast.Lt: operator.lt, ast.LtE: operator.le, ast.Gt: operator.gt, ast.GtE: operator.ge, ast.Eq: operator.eq,
         ast.NotEq: operator.ne}
ZCMP = {ast.Lt: lambda a, b: a < b, ast.LtE: lambda a, b: a <= b, ast.Gt: lambda a, b: a > b,
        ast.GtE: lambda a, b: a >= b, ast.Eq: lambda a, b: a == b, ast.NotEq: lambda a, b: a != b}


# ---------------------------------------------------------------------------------------------- builtins

def _abs(ex, st, args, kw, node):
    v = args[0]
    if isinstance(v, (int, float)) and not isinstance(v, bool):
        return abs(v)
    if is_intlike(v):
        return z3.If(v >= 0, v, -v)
    if isinstance(v, Ref) and isinstance(st.content(v), Arr2C):
        c = st.content(v)
        return st.new_ref(Arr2C(lambda i, j, c=c: z3.If(c.at(i, j) >= 0, c.at(i, j), -c.at(i, j)), c.n0, c.n1), 'abs2d')
    if isinstance(v, Ref):
        return ex.arr_unary(lambda x: NR(z3.If(x.val >= 0, x.val, -x.val), x.nan), st.content(v), st)
    x = as_real(v)
    return NR(z3.If(x.val >= 0, x.val, -x.val), x.nan)


def _maxmin(is_max):
    def f(ex, st, args, kw, node):
        if len(args) == 1:
            raise Unsupported('max/min of an iterable')
        # python semantics: result = first; for x in rest: if x > result (max) / x < result (min): result = x
        res = args[0]
        for x in args[1:]:
            if all(isinstance(v, (int, float)) and not isinstance(v, bool) for v in (res, x)):
                res = max(res, x) if is_max else min(res, x)
                continue
            c = ex.compare(ast.Gt() if is_max else ast.Lt(), x, res, st)
            if isinstance(c, bool):
                res = x if c else res
            elif is_intlike(x) and is_intlike(res):
                res = z3.If(c, to_z3(x), to_z3(res))
            else:
                a, b = as_real(x), as_real(res)
                res = NR(z3.If(c, a.val, b.val), False if (a.nan is False and b.nan is False) else z3.If(c, a.nanz(), b.nanz()))
        return res
    return f


def _len(ex, st, args, kw, node):
    v = args[0]
    if isinstance(v, MaybeNone):
        v = v.value
    if isinstance(v, Coll):
        return v.n
    if isinstance(v, tuple) and len(v) == 2 and v[0] == 'absiter':
        return v[1].n
    if isinstance(v, (tuple, list, str)):
        return len(v)
    if isinstance(v, Ref):
        c = st.content(v)
        if isinstance(c, (ListC,)):
            return len(c.items)
        if isinstance(c, DictC):
            return len(c.items)
        if isinstance(c, (MapC, RowDictC)):
            return c.n
        if z3.is_int_value(c.n):
            return c.n.as_long()
        return c.n
    h = ex.lookup('len')
    raise Unsupported('len of %r' % (v,))


def _isinstance(ex, st, args, kw, node):
    v = args[0]
    tname = ast.unparse(node.args[1])
    table = {'int': lambda x: is_intlike(x), 'float': lambda x: isinstance(x, (NR, float)),
             'str': lambda x: isinstance(x, str) or (isinstance(x, Opaque) and x.term.sort() == TStr.sort),
             'bool': lambda x: isinstance(x, bool) or (z3.is_expr(x) and z3.is_bool(x)),
             'list': lambda x: isinstance(x, Ref) and isinstance(st.content(x), (ListC, SeqC)),
             'dict': lambda x: isinstance(x, Ref) and isinstance(st.content(x), DictC),
             'np.ndarray': lambda x: isinstance(x, Ref) and isinstance(st.content(x), ArrC),
             'tuple': lambda x: isinstance(x, tuple)}
    h = ex.c.calls.get('isinstance:' + tname)
    if h is not None:
        return h(ex, st, args, kw, node)
    if tname in table:
        return bool(table[tname](v))
    raise Unsupported('isinstance(%s)' % tname)


def _float(ex, st, args, kw, node):
    return as_real(args[0])


def _int(ex, st, args, kw, node):
    v = args[0]
    if is_intlike(v):
        return v
    if isinstance(v, bool):
        return int(v)
    if z3.is_expr(v) and z3.is_bool(v):
        return z3.If(v, z3.IntVal(1), z3.IntVal(0))
    if isinstance(v, NR):
        # int(float) truncates toward zero; int(nan) raises ValueError
        if v.nan is not False:
            ex.oblige(st, 'int()-of-a-float-that-is-not-NaN', z3.Not(v.nanz()), {})
        return z3.If(v.val >= 0, z3.ToInt(v.val), -z3.ToInt(-v.val))
    raise Unsupported('int() of %r' % (v,))


def _bool(ex, st, args, kw, node):
    return ex.truth(args[0], st)


def _round(ex, st, args, kw, node):
    x = as_real(args[0])
    r = fresh('round', R)
    # only what the code under contract relies on: rounding to 2 decimals moves a value by at most 0.005
    st.assume(z3.And(r - x.val <= z3.RealVal('0.005'), x.val - r <= z3.RealVal('0.005')))
    return NR(r, x.nan)


def _list(ex, st, args, kw, node):
    if not args:
        return st.new_ref(ListC([]), 'list')
    v = args[0]
    if isinstance(v, tuple):
        return st.new_ref(ListC(list(v)), 'list')
    if isinstance(v, Ref):
        c = st.content(v)
        if isinstance(c, ListC):
            return st.new_ref(ListC(list(c.items)), 'list')
        if isinstance(c, SeqC):
            return st.new_ref(SeqC(c.arr, c.n, c.nans), 'list')
        if isinstance(c, DictC):
            return st.new_ref(ListC(list(c.items.keys())), 'list')
    raise Unsupported('list() of %r' % (v,))


def _dict(ex, st, args, kw, node):
    return st.new_ref(DictC(dict(kw)), 'dict')


def _sum(ex, st, args, kw, node):
    v = args[0]
    if isinstance(v, Ref) and isinstance(st.content(v), ListC):
        items = st.content(v).items
        acc = 0
        for x in items:
            acc = ex.binop(ast.Add(), acc, x, st)
        return acc
    if isinstance(v, Ref) and isinstance(st.content(v), (SeqC, ArrC)):
        c = st.content(v)
        a = c.arr if isinstance(c, SeqC) else c.vals
        nn = (lambda i: c.nans[i]) if c.nans is not None else (lambda i: z3.BoolVal(False))
        rest = fresh('sum_tail', R)          # exact for lengths 0..3, uninterpreted beyond
        val = z3.If(c.n <= 0, z3.RealVal(0), z3.If(c.n == 1, a[0], z3.If(c.n == 2, a[0] + a[1],
                    z3.If(c.n == 3, a[0] + a[1] + a[2], rest))))
        nan = z3.Or(z3.And(c.n >= 1, nn(0)), z3.And(c.n >= 2, nn(1)), z3.And(c.n >= 3, nn(2)), c.n > 3)
        return NR(val, nan if c.nans is not None else False)
    raise Unsupported('sum of symbolic-length sequence')


def _str(ex, st, args, kw, node):
    v = args[0]
    if isinstance(v, str):
        return v
    if isinstance(v, int) and not isinstance(v, bool):
        return str(v)
    return Opaque(fresh('str', TStr.sort))


def _slice(ex, st, args, kw, node):
    """slice(lo, hi): a slice object (step 1), usable as a subscript of a 1-D array or sequence"""
    if len(args) != 2:
        raise Unsupported('slice() with %d arguments' % len(args))
    return Mark('slice', args[0], args[1])


def _getattr3(ex, st, args, kw, node):
    """getattr(obj, '<literal name>', default): the attribute when the object declares it, else the default"""
    if len(args) != 3 or not isinstance(args[1], str):
        raise Unsupported('getattr without a literal name and a default')
    obj, name, default = args
    if obj is None or isinstance(obj, (bool, int, float, str)):
        return default                      # None / numbers / strings have none of the attributes the code under contract asks for
    if isinstance(obj, Obj):
        path = st.canon(obj.path + '.' + name)
        if st.has(path):
            return st.load(path)
        if st.schema_for(path) is None:
            raise Unsupported('getattr(%s, %r, default): the contract does not say whether the attribute exists' % (obj.path, name))
        return st.load(path)
    raise Unsupported('getattr on %r' % (obj,))


BUILTINS = {'getattr': _getattr3, 'slice': _slice, 'abs': _abs, 'max': _maxmin(True), 'min': _maxmin(False), 'len': _len, 'isinstance': _isinstance,
            'float': _float, 'int': _int, 'bool': _bool, 'round': _round, 'list': _list, 'dict': _dict, 'sum': _sum,
            'str': _str, 'OrderedDict': _dict}


# ---------------------------------------------------------------------------------------------- declarative call specs

def spec(requires=(), modifies=(), ensures=(), returns=None, raises=(), name='callee'):
    """Build a call handler from a contract:
       requires: [(label, fn(view, args, kwargs) -> z3 Bool)]   asserted at the call site (pre@call obligation)
       modifies: heap path patterns / 'loc:<name>' havoced
       returns : Sort for the result (or a python constant / None)
       ensures : [fn(old_view, new_view, result, args, kwargs) -> z3 Bool]   assumed after the call
       raises  : [(ExcName, fn(view,args,kwargs) -> condition or None)]      exceptional outcomes (state unchanged)
    """
    def h(ex, st, args, kwargs, node):
        v = View(st, ex)
        for label, fn in requires:
            ex.oblige(st, 'pre@call:%s:%s' % (name, label), zb(fn(v, args, kwargs)), {'callee': name})
        outs = []
        for exc, condfn in raises:
            cond = condfn(v, args, kwargs) if condfn else None
            outs.append((cond, 'raise', ExcVal(exc)))
        s2 = st.copy() if outs else st
        old = View(st.copy(), ex)
        ex.havoc_frame(s2, list(modifies))
        if s2.writes is not None:
            for m in modifies:
                s2.writes.add(m)
        res = returns.make(s2, name + '.ret') if isinstance(returns, Sort) else returns
        for fn in ensures:
            s2.assume(zb(fn(old, View(s2, ex), res, args, kwargs)))
        if outs:
            norm_cond = None
            conds = [c for c, _, _ in outs if c is not None]
            if conds and all(c is not None for c, _, _ in outs):
                norm_cond = z3.Not(z3.Or(*conds))
            return Outcomes(outs + [(norm_cond, 'value', (s2, res))])
        return res
    h.spec = dict(requires=requires, modifies=modifies, returns=returns, name=name)
    return h


def pure(returns=None):
    return spec(returns=returns)


# ---------------------------------------------------------------------------------------------- discharge

def discharge(obligations, pack, timeout_ms=None):
    from .smt import prove
    out = []
    for name, hyps, goal, meta in obligations:
        r = prove(name, hyps, goal, meta=meta, timeout_ms=timeout_ms, keep_smt2=len(out) < 2)
        out.append(r)
    return out
