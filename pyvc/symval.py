"""
pyvc.symval -- symbolic values and state for the Python-function front end (pyvc.symex).

Value domain
  python constants            int, float, bool, str, None, tuple
  z3 Int / Bool terms         machine ints as Z, bools
  NR(val, nan)                Python float: a real plus an explicit NaN flag (comparisons with NaN are False,
                              arithmetic propagates the flag)
  Ref(loc)                    reference to a mutable object held in ``State.locs``:
                                ArrC(vals, nans, n)  numeric 1-D array: z3 Array Int->Real, optional NaN mask, length
                                ListC(items)         python list of known length (items are values)
                                SeqC(arr, n, sort)   homogeneous sequence of symbolic length (z3 Array Int->sort)
                                DictC(...)           python dict with concrete keys
  Obj(path)                   heap object; attributes live in ``State.heap`` under ``path.attr``
  Opaque(term)                value of an uninterpreted sort (matrices, LU factors, idx values, strings)
  Func(name) / Method(obj, name) / Module(name)
Aliasing is explicit: two paths hold the same array iff they hold the same Ref; the contract's schema gives
every declared array path its own location (stated assumption) unless an alias is declared.
"""
import itertools
from fractions import Fraction

import z3

_counter = itertools.count()


def fresh(prefix, sort):
    return z3.Const('%s!%d' % (prefix, next(_counter)), sort)


R = z3.RealSort()
I = z3.IntSort()
Bo = z3.BoolSort()


def rv(x):
    """python number -> z3 real"""
    if isinstance(x, bool):
        return z3.RealVal(1 if x else 0)
    if isinstance(x, int):
        return z3.RealVal(x)
    if isinstance(x, float):
        return z3.RealVal(str(Fraction(repr(x))))
    if isinstance(x, Fraction):
        return z3.RealVal(str(x))
    return x


class NR:
    """float value: real + NaN flag"""
    __slots__ = ('val', 'nan')

    def __init__(self, val, nan=False):
        self.val = rv(val)
        self.nan = nan if isinstance(nan, bool) else z3.simplify(nan) if False else nan

    def nanz(self):
        return z3.BoolVal(self.nan) if isinstance(self.nan, bool) else self.nan

    def __repr__(self):
        return 'NR(%s, nan=%s)' % (self.val, self.nan)


class Ref:
    __slots__ = ('loc',)

    def __init__(self, loc):
        self.loc = loc

    def __repr__(self):
        return 'Ref(%s)' % self.loc


class ArrC:
    """content of a numeric 1-D array (immutable value; stores produce new ArrC)"""
    __slots__ = ('vals', 'nans', 'n', 'kind')

    def __init__(self, vals, n, nans=None, kind=None):
        self.vals, self.n, self.nans, self.kind = vals, n, nans, kind     # kind: None | 'bool' | 'int'

    def nan_at(self, i):
        return z3.BoolVal(False) if self.nans is None else self.nans[i]

    def at(self, i):
        return NR(self.vals[i], False if self.nans is None else self.nans[i])


class Arr2C:
    """content of a numeric 2-D array: z3 function (i, j) -> Real and the two extents"""
    __slots__ = ('f', 'n0', 'n1')

    def __init__(self, f, n0, n1):
        self.f, self.n0, self.n1 = f, n0, n1        # f: python callable (i, j) -> z3 Real term

    def at(self, i, j):
        return self.f(i, j)


class RowDictC:
    """insertion-ordered dict  key (float) -> 1-D array  of symbolic size: keys[i], rows(i, k), number of entries, row width"""
    __slots__ = ('keys', 'rows', 'n', 'width')

    def __init__(self, keys, rows, n, width):
        self.keys, self.rows, self.n, self.width = keys, rows, n, width      # rows: python callable (i, k) -> z3 Real


class LocalFunc:
    """a function defined inside the function under contract: inlined at its call sites"""
    __slots__ = ('node',)

    def __init__(self, node):
        self.node = node


class ListC:
    __slots__ = ('items',)

    def __init__(self, items):
        self.items = list(items)


class SeqC:
    """homogeneous sequence of symbolic length; elements are z3 terms of ``sort`` (NR for reals when nan tracked)"""
    __slots__ = ('arr', 'n', 'nans')

    def __init__(self, arr, n, nans=None):
        self.arr, self.n, self.nans = arr, n, nans


class FiltC:
    """result of a filtered comprehension ``[elt(k) for k-th item if keep(k)]`` over a symbolic sequence of length n: the
    sub-sequence of the elt(k) with keep(k), in order.  Not indexable; contracts of the consumers read (n, elem, keep)."""
    __slots__ = ('n', 'elem', 'keep')

    def __init__(self, n, elem, keep):
        self.n, self.elem, self.keep = n, elem, keep


class MapC:
    """python dict with symbolic keys: domain predicate, value array, size (insertion-ordered semantics are not needed
    by the functions under contract: order is carried by explicit uid maps)"""
    __slots__ = ('dom', 'val', 'n', 'ksort', 'vsort')

    def __init__(self, dom, val, n):
        self.dom, self.val, self.n = dom, val, n


class DictC:
    __slots__ = ('items',)

    def __init__(self, items=None):
        self.items = dict(items or {})


class Obj:
    __slots__ = ('path', 'cls')

    def __init__(self, path, cls=None):
        self.path, self.cls = path, cls

    def __repr__(self):
        return 'Obj(%s)' % self.path


class Opaque:
    __slots__ = ('term',)

    def __init__(self, term):
        self.term = term

    def __repr__(self):
        return 'Opaque(%s)' % self.term


class Func:
    __slots__ = ('name',)

    def __init__(self, name):
        self.name = name


class Method:
    __slots__ = ('recv', 'name')

    def __init__(self, recv, name):
        self.recv, self.name = recv, name


class Module:
    __slots__ = ('name',)

    def __init__(self, name):
        self.name = name


class ExcVal:
    """an exception instance"""
    __slots__ = ('cls', 'args')

    def __init__(self, cls, args=()):
        self.cls, self.args = cls, args


class Unsupported(Exception):
    """construct outside the verified subset: the function is reported UNDECIDED, never a violation"""


class ContractError(Exception):
    """the contract itself is malformed (checker error, exit 3)"""


# ---------------------------------------------------------------------------------------------- sort descriptors (schema)

class Sort:
    pass


class TInt(Sort):
    def make(self, st, name):
        return fresh(name, I)


class TBool(Sort):
    def make(self, st, name):
        return fresh(name, Bo)


class TReal(Sort):
    """float that is never NaN"""
    def make(self, st, name):
        return NR(fresh(name, R), False)


class TFloat(Sort):
    """float that may be NaN"""
    def make(self, st, name):
        return NR(fresh(name, R), fresh(name + '.nan', Bo))


class TArr(Sort):
    """numeric 1-D numpy array; ``nan=True`` tracks a NaN mask; ``n`` optional path/term giving the length"""
    def __init__(self, nan=False, n=None, kind=None):
        self.nan, self.n, self.kind = nan, n, kind

    def make(self, st, name):
        n = self.n if self.n is not None else fresh(name + '.len', I)
        if isinstance(n, str):
            n = st.load(n)
        if self.n is None:
            st.assume(n >= 0)
        c = ArrC(fresh(name, z3.ArraySort(I, R)), n, fresh(name + '.nans', z3.ArraySort(I, Bo)) if self.nan else None,
                 kind=self.kind)
        if self.kind == 'int':
            k = fresh('k', I)
            st.assume(z3.ForAll([k], z3.IsInt(c.vals[k])))
        return st.new_ref(c, name)


class TArr2_(object):
    pass


class TArr2(Sort):
    def __init__(self, n0=None, n1=None):
        self.n0, self.n1 = n0, n1

    def make(self, st, name):
        n0 = self.n0 if self.n0 is not None else fresh(name + '.n0', I)
        n1 = self.n1 if self.n1 is not None else fresh(name + '.n1', I)
        fn = z3.Function(name + '!' + str(next(_counter)), I, I, R)
        return st.new_ref(Arr2C(lambda i, j: fn(i, j), n0, n1), name)


class TSeq(Sort):
    """python list / sequence of symbolic length with elements of a z3 sort (Real elements optionally NaN-able)"""
    def __init__(self, elem=None, nan=False, minlen=0):
        self.elem, self.nan, self.minlen = (R if elem is None else elem), nan, minlen

    def make(self, st, name):
        n = fresh(name + '.len', I)
        st.assume(n >= self.minlen)
        c = SeqC(fresh(name, z3.ArraySort(I, self.elem)), n,
                 fresh(name + '.nans', z3.ArraySort(I, Bo)) if self.nan else None)
        return st.new_ref(c, name)


class Mark:
    """opaque contract-level token for an object the contract models through hooks only (never iterated, compared or
    indexed by the engine itself); equality is by value"""
    __slots__ = ('kind', 'data')

    def __init__(self, kind, *data):
        self.kind, self.data = kind, data

    def __eq__(self, o):
        return isinstance(o, Mark) and o.kind == self.kind and len(o.data) == len(self.data) and \
            all((a is b) or (not hasattr(a, 'eq') and a == b) or (hasattr(a, 'eq') and hasattr(b, 'eq') and a.eq(b))
                for a, b in zip(self.data, o.data))

    def __hash__(self):
        return hash(self.kind)

    def __repr__(self):
        return 'Mark(%s%s)' % (self.kind, ''.join(', %r' % (d,) for d in self.data))


class Coll:
    """abstract ordered collection (dict / list) of heap objects of symbolic size; elements are not enumerated:
    a loop over it executes its body once for one arbitrary element ``Obj(path + '.$e')``"""
    __slots__ = ('path', 'n', 'keysort')

    def __init__(self, path, n, keysort=None):
        self.path, self.n, self.keysort = path, n, keysort


class TColl(Sort):
    def __init__(self, keysort=None):
        self.keysort = keysort

    def make(self, st, name):
        n = fresh(name + '.size', I)
        st.assume(n >= 0)
        return Coll(name, n, self.keysort)


class TMap(Sort):
    def __init__(self, ksort, vsort):
        self.ksort, self.vsort = ksort, vsort

    def make(self, st, name):
        n = fresh(name + '.size', I)
        st.assume(n >= 0)
        c = MapC(fresh(name + '.dom', z3.ArraySort(self.ksort, Bo)), fresh(name + '.val', z3.ArraySort(self.ksort, self.vsort)), n)
        return st.new_ref(c, name)


class TRowDict(Sort):
    def __init__(self, n=None, width=None):
        self.n, self.width = n, width

    def make(self, st, name):
        n = self.n if self.n is not None else fresh(name + '.n', I)
        w = self.width if self.width is not None else fresh(name + '.width', I)
        if isinstance(n, str):
            n = st.load(n)
        st.assume(z3.And(n >= 0, w >= 0))
        fn = z3.Function(name + '!' + str(next(_counter)), I, I, R)
        return st.new_ref(RowDictC(fresh(name + '.keys', z3.ArraySort(I, R)), lambda i, k: fn(i, k), n, w), name)


class TObj(Sort):
    def __init__(self, cls=None):
        self.cls = cls

    def make(self, st, name):
        return Obj(name.split('!')[0], self.cls)       # an object is its heap path: version suffixes of havoced values do not apply


class TOpaque(Sort):
    def __init__(self, sortname):
        self.sort = z3.DeclareSort(sortname)

    def make(self, st, name):
        return Opaque(fresh(name, self.sort))


class TConst(Sort):
    def __init__(self, value):
        self.value = value

    def make(self, st, name):
        return self.value


class TNone(TConst):
    def __init__(self):
        super().__init__(None)


class TOptional(Sort):
    """either None or a value of the inner sort: forks are avoided by a ghost flag only when contract asks via is None"""
    def __init__(self, inner):
        self.inner = inner

    def make(self, st, name):
        return MaybeNone(fresh(name + '.isnone', Bo), self.inner.make(st, name))


class MaybeNone:
    __slots__ = ('isnone', 'value')

    def __init__(self, isnone, value):
        self.isnone, self.value = isnone, value


class TStr(Sort):
    """string from a finite declared alphabet of literals (modelled as an uninterpreted sort with distinct constants)"""
    sort = z3.DeclareSort('PyStr')
    consts = {}

    @classmethod
    def lit(cls, s):
        if s not in cls.consts:
            cls.consts[s] = z3.Const('str:' + s, cls.sort)
        return cls.consts[s]

    @classmethod
    def distinct(cls):
        c = list(cls.consts.values())
        return [z3.Distinct(*c)] if len(c) > 1 else []

    def make(self, st, name):
        return Opaque(fresh(name, self.sort))


# ---------------------------------------------------------------------------------------------- state

class State:
    def __init__(self, schema=None, aliases=None):
        self.heap = {}
        self.locs = {}
        self.loc_names = {}
        self.pc = []
        self.schema = schema or {}
        self.aliases = aliases or {}
        self.env = {}
        self.writes = None          # when not None: set collecting written heap paths / locs (loop frame tracking)
        self.ghost = {}
        self.trace = []
        self._nloc = itertools.count()
        self.initial = {}           # shared: lazily created initial values (path -> value)
        self.initial_locs = {}      # shared: initial contents of lazily created locations
        self.initial_assumes = {}   # shared: type assumptions made when an initial value was created (path -> [cond])
        self.havoc_pats = []        # wildcard patterns havoced so far on this path
        self._making_initial = False

    def copy(self):
        s = State.__new__(State)
        s.heap = dict(self.heap)
        s.locs = dict(self.locs)
        s.loc_names = self.loc_names
        s.pc = list(self.pc)
        s.schema = self.schema
        s.aliases = self.aliases
        s.env = dict(self.env)
        s.writes = self.writes
        s.ghost = dict(self.ghost)
        s.trace = list(self.trace)
        s._nloc = self._nloc
        s.initial = self.initial
        s.initial_locs = self.initial_locs
        s.initial_assumes = self.initial_assumes
        s.havoc_pats = list(self.havoc_pats)
        s._making_initial = False
        return s

    # -- assumptions
    def assume(self, cond):
        if isinstance(cond, bool):
            if not cond:
                self.pc.append(z3.BoolVal(False))
            return
        self.pc.append(cond)

    # -- locations
    def new_ref(self, content, name='loc'):
        loc = '%s#%d' % (name, next(self._nloc))
        self.locs[loc] = content
        self.loc_names[loc] = name
        if self._making_initial:
            self.initial_locs[loc] = content
        return Ref(loc)

    def content(self, ref):
        if isinstance(ref, MaybeNone):
            ref = ref.value
        if ref.loc in self.locs:
            return self.locs[ref.loc]
        return self.initial_locs[ref.loc]

    def set_content(self, ref, content):
        self.locs[ref.loc] = content
        if self.writes is not None:
            self.writes.add('locid:' + ref.loc)

    # -- heap paths
    def canon(self, path):
        # longest-prefix alias rewriting
        changed = True
        guard = 0
        while changed and guard < 20:
            changed = False
            guard += 1
            for a, b in self.aliases.items():
                if path == a or path.startswith(a + '.'):
                    path = b + path[len(a):]
                    changed = True
        return path

    def load(self, path):
        import fnmatch
        path = self.canon(path)
        if path in self.heap:
            return self.heap[path]
        sort = self.schema_for(path)
        if sort is None:
            raise Unsupported('read of undeclared heap path %s' % path)
        if path not in self.initial:
            prev = self._making_initial
            self._making_initial = True
            n0 = len(self.pc)
            try:
                self.initial[path] = sort.make(self, path)
            finally:
                self._making_initial = prev
            self.initial_assumes[path] = list(self.pc[n0:])
        else:
            # created on another path: the sort's assumptions (sizes >= 0, integrality) hold here as well
            have = {id(c) for c in self.pc}
            for cnd in self.initial_assumes.get(path, ()):
                if id(cnd) not in have:
                    self.pc.append(cnd)
        v = self.initial[path]
        if isinstance(v, Ref) and v.loc not in self.locs:
            self.locs[v.loc] = self.initial_locs[v.loc]
        if any(fnmatch.fnmatchcase(path, pat) for pat in self.havoc_pats):
            # first read after a wildcard havoc that covered this path: the value is not the initial one
            v2 = sort.make(self, path + '!h')
            if isinstance(v, Ref) and isinstance(v2, Ref):
                self.locs[v.loc] = self.locs.pop(v2.loc)     # same identity, havoced content
                self.loc_names.pop(v2.loc, None)
            elif isinstance(v2, Coll):
                v = Coll(path, v2.n, v2.keysort)
            elif isinstance(v2, Obj):
                v = Obj(path, v2.cls)
            else:
                v = v2
        self.heap[path] = v
        return v

    def schema_for(self, path):
        if path in self.schema:
            return self.schema[path]
        # wildcard entries 'a.*.b'
        parts = path.split('.')
        for pat, sort in self.schema.items():
            if '*' in pat:
                pp = pat.split('.')
                if len(pp) == len(parts) and all(x == '*' or x == y for x, y in zip(pp, parts)):
                    return sort
        return None

    def store(self, path, value):
        path = self.canon(path)
        self.heap[path] = value
        if self.writes is not None:
            self.writes.add(path)

    def has(self, path):
        path = self.canon(path)
        return path in self.heap or self.schema_for(path) is not None
