#!/bin/sh
# run every claimed check once (quick tier) and print the summary line of each
cd "$(dirname "$0")"
rc=0
for p in $(./.venv/bin/python -c "import json; print(' '.join(c['property_id'] for c in json.load(open('MANIFEST.json'))['checks']))"); do
  out=$(./check $p --tier ${1:-quick} 2>&1); e=$?
  echo "$out" | grep -E "^(KNOWN-FINDING|VIOLATION|UNDECIDED|checker error)" | cut -c1-160
  echo "$out" | tail -1; echo "  exit=$e"
  [ $e -ne 0 ] && rc=1
done
exit $rc
