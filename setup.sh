#!/bin/sh
# Build /verif/.venv offline: python 3.12 venv with z3-solver, cvc5, jsonschema from the wheelhouse,
# plus a .pth exposing /venv's site-packages (andes is an editable install pointing at /repo).
set -e
cd "$(dirname "$0")"
if [ ! -x .venv/bin/python ] || ! .venv/bin/python -c "import z3, andes" 2>/dev/null; then
  rm -rf .venv
  /venv/bin/python -m venv .venv
  PIP_NO_INDEX=1 .venv/bin/pip install -q --no-index --find-links /opt/veriftools/wheels z3-solver cvc5 jsonschema || \
  PIP_NO_INDEX=1 .venv/bin/pip install -q --no-index --find-links /opt/veriftools/wheels z3-solver jsonschema
  SP=$(.venv/bin/python -c "import sysconfig; print(sysconfig.get_paths()['purelib'])")
  echo "import site; site.addsitedir('/venv/lib/python3.12/site-packages')" > "$SP/zz_venv_overlay.pth"
fi
.venv/bin/python -c "import z3, andes, numpy; print('setup ok: z3', z3.get_version_string(), 'andes', andes.__file__)"
