"""Regenerate the generated tables of DESIGN.md section 9 (as-built numbers, seeded changes) from evidence/ and seeded/*/meta.json."""
import glob
import json
import re


def numbers():
    rows = ['| id | level | functions under contract | discharged / obligations | known findings | bounded stand-ins (not counted) |',
            '|---|---|---|---|---|---|']
    for i in range(1, 21):
        p = 'C%02d' % i
        e = json.load(open('evidence/%s.json' % p))
        c = e['coverage']
        b = '; '.join(x.get('function', '?') for x in c.get('bounded', [])) or '-'
        rows.append('| %s | %s | %d | %d / %d | %d | %s |' % (p, e['level'], c['functions_under_contract'], c['discharged'], c['obligations'],
                                                             len(c.get('known_findings', [])), b))
    return '\n'.join(rows)


def seeded():
    rows = ['| id | change | first run | result now | caught by |', '|---|---|---|---|---|']
    for d in sorted(glob.glob('seeded/*/')):
        m = json.load(open(d + 'meta.json'))
        ob = m.get('observed_on_repo', {})
        title = m['title']
        title = re.sub(r'^(C\d\d\w?\s*(seeded\s+)?(/\s*)?)?[Cc]hange\s*\d\s*(--|[—:-])?\s*', '', title).strip(' —-:')
        title = re.sub(r'^C\d\d\w?\s*(seeded change \d|/ change \d)?\s*(--|[—:-])\s*', '', title).strip(' —-:')
        if m['id'] == 'C16-1':
            res = 'obsolete (see text)'
        else:
            res = 'exit 1; %d VIOLATION line(s), %d with a replayed input' % (ob.get('violation_lines', 0), ob.get('with_replayed_input', 0))
        rows.append('| %s | %s | %s | %s | %s |' % (m['id'], title[:120].replace('|', '/'), m.get('first_run', '-'), res, m['caught_by'].replace('|', '/')))
    return '\n'.join(rows)


def main():
    s = open('DESIGN.md').read()
    for tag, fn in (('asbuilt-numbers', numbers), ('seeded-table', seeded)):
        s = re.sub(r'<!-- BEGIN:%s -->.*?<!-- END:%s -->' % (tag, tag), lambda _: '<!-- BEGIN:%s -->\n%s\n<!-- END:%s -->' % (tag, fn(), tag), s, flags=re.S)
    open('DESIGN.md', 'w').write(s)


if __name__ == '__main__':
    main()
