"""Regenerate MANIFEST.json from the table below (kept valid at all times)."""
import json

CLAIMED = {
    # pid: (category, text, design_ref, level_note, technique)
    'C02': ('proof',
            'Every function of every generated pycode file (regenerated from the working tree on each run) is proved '
            'equal, element by element and for all argument values in the domain of the declared equation, to the '
            'equation/initialiser/service string declared on the live model object; argument tables, arity, md5 and '
            'init_seq coverage are structural obligations. ~8.6k obligations discharged by z3 (cvc5 for unknowns).',
            'DESIGN.md 2.2, 4/C02',
            'floats as reals; transcendental functions uninterpreted with ground identity instances; NumPy ufunc '
            'semantics; our own AST->SMT translator; z3/cvc5',
            'contract-based deductive verification: VC generation from generated code + declared strings, SMT (z3/cvc5)'),
    'C03': ('proof',
            'Every generated Jacobian entry is proved equal to the derivative (own forward-mode differentiator) of the '
            'declared equation w.r.t. the variable its table index names; pairs absent from the tables are proved to '
            'have zero derivative (pattern completeness); constant entries equal the declared diag_eps.',
            'DESIGN.md 2.2, 4/C03',
            'as C02; derivatives compared off breakpoints of Piecewise/abs; kvxopt ipadd/spmatrix contracts assumed',
            'contract-based deductive verification: symbolic derivative obligations discharged by SMT (z3/cvc5)'),
}

ALL = ['C%02d' % i for i in range(1, 21)]
NA_REASON = {p: 'contract pack not built yet in this session (see DESIGN.md section 7 build order); no other technique substituted'
             for p in ALL}


def main():
    checks = []
    for pid in ALL:
        if pid not in CLAIMED:
            continue
        cat, text, ref, note, tech = CLAIMED[pid]
        checks.append({
            'property_id': pid,
            'quick_cmd': './check %s --tier quick' % pid,
            'thorough_cmd': './check %s --tier thorough' % pid,
            'evidence_file': 'evidence/%s.json' % pid,
            'replay_cmd_template': './check %s --replay {path}' % pid,
            'engine': 'pyvc',
            'level_claimed': {'category': cat, 'text': text, 'design_ref': ref},
            'level_note': note,
            'technique': tech,
        })
    man = {
        'version': 1,
        'setup_cmd': './setup.sh',
        'hooks': {
            'guard': 'ANDES_VERIF',
            'enable': 'unused: sidecar contracts only, no hook in /repo',
            'baseline_off_cmd': 'cd /repo && /venv/bin/python -m pytest -ra -q -p no:cacheprovider --timeout=900 --continue-on-collection-errors',
            'source_commits': [],
            'add_only': True,
        },
        'engines': [{'name': 'pyvc', 'path': 'pyvc/', 'serves_properties': sorted(CLAIMED),
                     'kind_free_text': 'own VC generator (Python ast -> z3/cvc5) over the real source of /repo and the '
                                       'code its generator emits; sidecar contracts in contracts/'}],
        'checks': checks,
        'not_applicable': [{'property_id': p, 'reason': NA_REASON[p]} for p in ALL if p not in CLAIMED],
        'notes': 'See DESIGN.md. Exit codes: 0 held, 1 violation, 2 undecided (never on the unchanged tree), 3 checker error.',
    }
    with open('MANIFEST.json', 'w') as f:
        json.dump(man, f, indent=1)


if __name__ == '__main__':
    main()
