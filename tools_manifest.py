"""Regenerate MANIFEST.json from the table below (kept valid at all times)."""
import json

CLAIMED = {
    # pid: (category, text, design_ref, level_note, technique)
    'C02': ('proof',
            'Every function of every generated pycode file (regenerated from the working tree on each run) is proved '
            'equal, element by element and for all argument values in the domain of the declared equation, to the '
            'equation/initialiser/service string declared on the live model object; argument tables, arity, md5 and '
            'init_seq coverage are structural obligations. ~8.6k obligations discharged by z3 (cvc5 for unknowns).',
            'DESIGN.md 2.2, 4/C02',
            'floats as reals; transcendental functions uninterpreted with ground identity instances; NumPy ufunc '
            'semantics; our own AST->SMT translator; z3/cvc5',
            'contract-based deductive verification: VC generation from generated code + declared strings, SMT (z3/cvc5)'),
    'C03': ('proof',
            'Every generated Jacobian entry is proved equal to the derivative (own forward-mode differentiator) of the '
            'declared equation w.r.t. the variable its table index names; pairs absent from the tables are proved to '
            'have zero derivative (pattern completeness); constant entries equal the declared diag_eps.',
            'DESIGN.md 2.2, 4/C03',
            'as C02; derivatives compared off breakpoints of Piecewise/abs; kvxopt ipadd/spmatrix contracts assumed',
            'contract-based deductive verification: symbolic derivative obligations discharged by SMT (z3/cvc5)'),
    'C01': ('proof',
            'The residual strings of Line (pi-model with tap/phase shift and asymmetric shunts), PQ (constant power / '
            'out-of-band constant impedance / ZIP), PV, Slack and Shunt on the live model objects are proved equal to an '
            'independent textbook complex-power spec for all values; set-point equations of PV/Slack proved. Partial: '
            'Newton convergence (liveness) is not decided.',
            'DESIGN.md 4/C01',
            'services equal their v_str (C02); limiter flag semantics (C09); angle-difference phasor algebra in the spec',
            'contract-based deductive verification: declared equations vs textbook spec, SMT (z3 NRA)'),
    'C07': ('proof',
            'Narrow, compositional: the GENCLS/GENBase equations are proved to be the textbook classical machine (swing '
            'equation with M, stator KVL, air-gap torque, closed-form power-angle relation); integrator/event/Jacobian '
            'premises are imported from C04/C06/C02/C03. No trajectory closeness is decided.',
            'DESIGN.md 4/C07',
            'convergence theorem of one-step methods on index-1 DAEs assumed; see evidence assumptions',
            'contract-based deductive verification: model equations vs textbook machine, SMT (z3 NRA)'),
    'C18': ('proof',
            'Every linear control block (26 instantiations of 22 classes) is instantiated inside a real Model; its '
            'define() output is proved to realise the documented transfer function for all parameters, s and inputs '
            '(Laplace-domain polynomial identity), to balance at the declared initial values, and limited variants '
            'reduce to the unlimited relation inside limits.',
            'DESIGN.md 4/C18',
            'LessThan / limiter flag semantics from C09; specs transcribed from docstrings; parameter preconditions listed',
            'contract-based deductive verification: block equations => transfer function, SMT (z3 QF_NRA)'),
    'C04': ('proof',
            'Trapezoid/BackEuler.calc_q are proved to be the pointwise rule residual, calc_jac the block Jacobian of '
            '(q, g) w.r.t. (x, y); ImplicitIter.step: loop invariant (x0,y0,f0 hold the entry values), failure => x,y,f '
            'restored, success => last correction <= tol and no NaN (chatter acceptance is a listed known finding), the '
            'vector handed to the solver is the rule residual; TDS.calc_h: 0 <= h, never past tf / next switch time / '
            'fixed step; TDS.run loop invariant. Partial: error order and reaching tf (liveness) are not decided.',
            'DESIGN.md 4/C04', 'callee contracts of fg_update/j_update/solver assumed; anti-windup loop summarised; reals',
            'contract-based deductive verification: symbolic execution of the real function bodies + SMT'),
    'C06': ('proof',
            'TDS.do_switch dispatches iff t equals the next switch time, exactly once, index +1; TDS.calc_h never steps '
            'past the next switch time or tf; TDS.run loop invariant (t <= next switch time, index in range, step-size '
            'state); the skip of an event scheduled at the current time is a listed known finding (F10).',
            'DESIGN.md 4/C06', 'time arithmetic over the reals (FP landing lemma separate); switch_times strictly increasing '
            'is a representation invariant (store_switch_times)',
            'contract-based deductive verification: symbolic execution with loop invariants + SMT'),
    'C14': ('proof',
            'Narrow: hand-over lemma post(run_1) => pre(run_2) on the resume branch, init_resume frame, calc_h(resume) '
            'contract. Trajectory equality and snapshots are not decided.',
            'DESIGN.md 4/C14', 'see evidence assumptions',
            'contract-based deductive verification: pre/post composition lemma + SMT'),
    'C17': ('proof',
            'PFlow.nr_step returns the NaN-propagating infinity norm of the assembled residual; nr_solve/run: success => '
            'tested mismatch < tol and not NaN, exit code mirrors the flag, no IndexError on early failure; '
            'ImplicitIter.step and TDS.run: success flags imply their tests on every path; power-flow gate of TDS.run. '
            'Known findings: chatter acceptance (F9), run() True after failed init test (F18).',
            'DESIGN.md 4/C17', 'callee contracts assumed as listed in evidence; reals with explicit NaN flags',
            'contract-based deductive verification: path-wise postconditions by symbolic execution + SMT'),
    'C09': ('proof',
            'check_var/check_eq of LessThan, IsEqual, Limiter (HardLimiter, DeadBand), AntiWindup, Switcher, DeadBandRT, '
            'Delay, Average, Derivative, Sampling and Limiter.do_adjust_* are symbolically executed for arbitrary array '
            'length: flags agree with the comparisons, are exclusive/exhaustive, pegged states are clamped with zero '
            'derivative and recorded in x_set, history components implement their shift-register / mean / quotient / '
            'sample-and-hold definitions. Known findings F5, F6, F23.',
            'DESIGN.md 4/C09', 'NumPy element-wise semantics; row projection for 2-D history arrays; step mode only',
            'contract-based deductive verification: symbolic execution over quantified array contents + SMT'),
    'C10': ('proof',
            'DAE.request_address is proved to return, for both layouts, exactly the block address map c+i*nd+k / c+i+k*nv '
            'with the counter advanced by nd*nv; lemma L1 proves these maps are bijections onto [c, c+nd*nv); '
            'System.set_address gives variable #idx block #idx (x and y), counters monotone, phase-3 blocks consecutive; '
            '_set_xy_name writes at slot a[j] the name built from the variable and idx[j]; ExtVar/ExtParam.link_external and '
            'Model.get follow uid(indexer[j]).',
            'DESIGN.md 4/C10', 'abstract collections (one arbitrary element per loop body); idx->uid lookup from C19; '
            'memory sharing of views not decided',
            'contract-based deductive verification: symbolic execution with ghost block descriptions + NIA lemmas (z3)'),
    'C19': ('proof',
            'GroupBase.add (duplicate => KeyError and unchanged state; otherwise next uid, registry bijection invariant kept), '
            'get_next_idx (never a registered idx; proposal kept when free), idx2uid / _one_idx2uid (position of that idx or '
            'KeyError), ModelData.add, IdxParam.add (unique), System.add (one idx through get_next_idx -> model.add -> '
            'group.add), DeviceFinder.find_or_add (per-entry decision), Model.set_backref. find_idx (model, group) and '
            'collect_ref are bounded native stand-ins, labelled bounded and not counted.',
            'DESIGN.md 4/C19', 'abstract idx sort; dict model with domain/value arrays; bounded parts stated in evidence',
            'contract-based deductive verification (symbolic execution + SMT) with two labelled bounded stand-ins'),
    'C12': ('proof',
            'ConnMan._update (status transitions), record (pending changes; F12), act (per dependent group exactly the '
            'devices attached to an off bus are switched off, never None idx; F13), System.g_islands (exactly the rows of '
            'islanded buses zeroed) by symbolic execution. System.connectivity itself: bounded stand-in only (real body on a '
            'stub system, all networks with <=5 buses and <=4 branches vs union-find; F24), labelled bounded, not counted.',
            'DESIGN.md 4/C12', 'ghost relation for attachment; find_idx contract from C19; connectivity closure not proved',
            'contract-based deductive verification (symbolic execution + SMT) plus a labelled bounded stand-in'),
    'C11': ('proof',
            'System.calc_pu_coeff: every parameter flagged with a quantity kind receives the textbook ratio (power, voltage, '
            'current, impedance, admittance, dc analogues; default bases when Sn/Vn/bus are absent), pointwise; '
            'NumParam.set_pu_coeff / restore write v in place; Model.set writes exactly element uid(idx) in place and '
            'propagates a time constant to dae.Tf and the Teye diagonal at the state address; Model.alter writes v and vin '
            'consistently for both attr modes; GroupBase.alter delegates per device; as_dict(vin=True) exports vin.',
            'DESIGN.md 4/C11', 'lookups from C10/C19; pointwise NumPy semantics; writers (xlsx/json) not decided',
            'contract-based deductive verification: symbolic execution with call-site obligations + SMT'),
    'C20': ('proof',
            'Config._set (int if int() accepts, else float if float() accepts, else the string; non-strings unchanged), '
            '_add (never overwrites an existing field), check (ValueError exactly for a value outside iterable non-string '
            'alternatives), as_dict (current public fields; stale cache is known finding F20), '
            'System._update_config_object (applied iff exactly one "=" and one "." with stripped parts, else ValueError), and '
            'call-order obligations on System.__init__ / BaseRoutine.__init__ / Config.update that carry the precedence. '
            'Partial: ConfigParser text handling is assumed.',
            'DESIGN.md 4/C20', 'int/float/str/ConfigParser contracts assumed (listed in evidence)',
            'contract-based deductive verification: symbolic execution with uninterpreted string functions + SMT, plus '
            'syntactic call-order obligations'),
    'C16': ('proof',
            'Partial: SuiteSparseSolver.solve (A^-1 b or NaN vector when singular; stale symbolic factor refreshed and retried; '
            'factorize flag cleared), KLU/UMFPACK linsolve (same, after fix F15), SpSolve.solve (refresh request => '
            're-factorised; flags cleared), spmatrix_to_csc (CCS components in the right csc_matrix slots), Solver dispatch - '
            'against assumed kvxopt/SciPy contracts. Cross-back-end numeric agreement and bit-identity are not decided.',
            'DESIGN.md 4/C16', 'kvxopt/SuiteSparse/SciPy contracts assumed; matrices uninterpreted',
            'contract-based deductive verification: symbolic execution over uninterpreted matrix sorts + SMT'),
    'C08': ('proof',
            'EIG._store_stats (the three masks partition the eigenvalues; fixed F2), find_zero_states (exactly the zero-Tf '
            'positions), _reduce (T^-1(fx - fy gy^-1 gx) as a ring-level identity with T zeros replaced by one), calc_pfactor '
            '(pf[mode k, state i] = |W||N| / column sum, loop invariant over the normalisation; fixed F3), _pre_check / run '
            '(refusal after a failed power flow; fixed F16). calc_As with zero time constants (_reorder) is a bounded sampled '
            'stand-in and a known finding (F4).',
            'DESIGN.md 4/C08', 'LAPACK / kvxopt contracts assumed; counting and sum lemmas stated',
            'contract-based deductive verification (symbolic execution + SMT) plus a labelled bounded stand-in'),
    'C15': ('proof',
            'Partial: DAE.store appends one entry at the current time holding a copy (never the live array) of the (selected) '
            'solver vectors; unpack_np row i = i-th stored entry and t[i] its key (loop invariant); write_npz append protocol '
            'over a ghost file (file += rows[idx_ptr:], pointer to end; z3 sequences); write_lst line k labels column k; '
            'Output.in1d / to_output_addr membership positions; TDS.run stores a row iff the thinning rule says so. '
            'File encoders, loaders and csv replay are not decided.',
            'DESIGN.md 4/C15', 'NumPy copy/gather/save contracts assumed; time stamps new (C06)',
            'contract-based deductive verification: symbolic execution with ghost file / row-dict models + SMT'),
    'C13': ('proof',
            'Narrow: NumParam.add / BaseParam._sanitize (stored value = input or default per missing/NaN/non_zero/... ; '
            'mandatory => ValueError), mpc2system (every bus/gen/branch row reaches System.add with the MATPOWER column '
            'mapping and units), system2mpc (columns and units, one load per bus; F14 known), PSS/E v33 record functions for '
            'bus, load, fixed shunt, generator, branch (F25 fixed) and two-winding transformer (F26, F27 known) against the '
            'record layout. Text-level parsing, DYR mapping, 3-winding transformers and xlsx/json round trips are not reachable.',
            'DESIGN.md 4/C13', 'format layouts transcribed from the format descriptions; System.add / Bus.get contracts',
            'contract-based deductive verification: per-record call-site obligations by symbolic execution + SMT'),
    'C05': ('proof',
            'Partial: TDS.test_init returns True iff every checked residual entry is a number below tol (both directions), and '
            'raises the exit code on failure; TDS.init copies the power-flow solution into the leading slots of x and y and '
            'resets the time before the dynamic models are addressed, records the test result, sets initialized; block initial '
            'values balance the block equations (24 block instantiations). Per-model equilibria, power hand-over and the '
            'iterative initialiser are not decided.',
            'DESIGN.md 4/C05', 'callee frames assumed; block flag semantics from C09',
            'contract-based deductive verification: symbolic execution + SMT, block steady-state identities'),
}

ALL = ['C%02d' % i for i in range(1, 21)]
NA_REASON = {p: 'contract pack not built yet in this session (see DESIGN.md section 7 build order); no other technique substituted'
             for p in ALL}


# as-built additions (DESIGN.md section 9): appended to the claim text of each property
ADDED = {
    'C18': 'Rounds 5-6: DummyValue.__init__ (expression stored in one pair of parentheses), GainLimiter limit regimes, System.init ordering and dae.Tf for service time constants.',
    'C09': 'Round 4: System.store_adder_setter (anti-windup limiters and only they reach System.antiwindups); bounded check of the stored series of whole runs (anti-windup states inside their limits at every stored instant).'
           ' Rounds 5-6: native replay of store_adder_setter with same-named limiters in two models; GainLimiter limit regimes; moving-limit anti-windup.',
    'C04': "Round 4: Model.set (dae.Tf / Teye written in place) and System._store_tf imported; bounded run resumed after a time-constant change checked against the model's own time constants."
           ' Rounds 5-6: time-bookkeeping clause of TDS.run (t - h is the time of the last accepted state), refresh-request clause of ImplicitIter.step, System.init ordering; bounded rejected-step run, moving-limit anti-windup, integrator matrix.',
    'C01': 'Also under contract: PFlow.nr_step / nr_solve / run (success => tested mismatch < tol), System._e_to_dae / fg_to_dae '
           '(accumulate adders, overwrite setters, pegged write-back), System.calc_pu_coeff / NumParam.set_pu_coeff (textbook '
           'ratios) and the declared per-unit bases of the Line data (declaration contract on LineData.__init__).'
           ' Round 4: System.store_adder_setter (each variable filed under the list of its role and its own code, cache refreshed first), head of Model.init (constant services re-evaluated on every call; solver counterexample replayed as run / alter / run).'
           ' Rounds 5-6: bounded reset-and-solve-again and power-flow variants (NR / dishonest / NK).',
    'C02': 'Function part: Model.f_update / g_update positional binding, refresh_inputs_arg (lookup by name), '
           'System._find_stale_models / undill (md5 gate), tail of SymProcessor.generate_pycode (overwrite decision; mechanical '
           'slice) plus a bounded native check that a tampered file with the right md5 line is replaced.'
           ' Round 4: Model.get_md5 (every declared v_str / v_iter / e_str / diag_eps, service v_str / sequential and exported flag is fed to the checksum) plus an exhaustive native sensitivity check over all shipped models.'
           ' Rounds 5-6: Model.refresh_inputs (live arrays under their own names, configuration asked for with refresh=True); bounded exhaustive binding of the loaded code, argument-list identity, staleness replay.',
    'C03': 'Function part: Model.j_update, _jac_eq_var_name, Model / System.store_sparse_pattern (lockstep triplets, reserved gy '
           'diagonal), System.j_update (order: model values, pattern reset, each triplet once, island patch), System.j_islands '
           '(semantic: diag = eps, cross = 0 per islanded bus), DAE.restore_sparse / build_pattern / store_sparse_ijv; native replays.'
           ' Round 4: rebuild-mode branch of System.j_islands (gy + spmatrix model), native pattern replay (every declared position in the stored template, live pattern = template after an update).'
           ' Rounds 5-6: bounded integrator-matrix check (calc_jac against calc_q), argument-list identity (live time for the Jacobian functions), parameters of constant blocks altered between evaluations.',
    'C05': 'Also: TDS.init keeps exactly the event schedule built by store_switch_times; GENBase.v_numeric switches off exactly the '
           'static generators of in-service machines; native replays for test_init and v_numeric.'
           ' Round 4: Model.solve_iter (every device position solved exactly once) with native replay on iteratively initialised exciters with an offline device.'
           ' Rounds 5-6: bounded stock case with a voltage compensator, mode sweep over the mode selectors (set in the input data).'
           ' Round 9: bounded check that IEEEG1 turbine fractions not adding up to one initialise to an equilibrium.',
    'C06': 'Round 9: Toggle.v_numeric (first initialisation stores the status of each addressed device, later ones write it back). Also: System.store_switch_times from its merge loop on (every (time, model) pair scheduled, models sharing a time merged, '
           'switch_times strictly increasing for an initially empty schedule; non-empty schedule = known finding F28), TDS.init '
           'schedule frame, TimerParam.is_time (exact equality), Model / System.switch_action (each callback once), Toggle._u_switch, '
           'Fault.apply_fault / clear_fault (exactly the due and enabled devices).'
           ' Round 4: head of System.store_switch_times (mechanical slice: every candidate is exactly t, t-eps or t+eps of the paired model, ascending, not before now), native replay of coincident alterations.'
           ' Rounds 5-6: Line status obligations (no constant read by a residual bakes in u; defect F36 fixed), effect checks for coincident events, late events, native replays for is_time / switch_action / _u_switch.',
    'C07': 'Imported premises are re-verified under this id: the C04 integration contracts, calc_h / do_switch, per-unit conversion, '
           'and declaration contracts for GENBaseData (M, D on the power base) and LineData.'
           ' Round 4: head of store_switch_times, EIG._reduce and EIG.calc_As imported; bounded small-signal benchmark (displacement along eigenvectors against expm(As t)).'
           ' Rounds 5-6: Line status obligations (F36), event runs shared with C06, calc_h replay with late event times.',
    'C08': 'Complex magnitudes modelled for _store_stats; native replay harness.'
           ' Round 4: System._store_tf (np.put with index arrays), EIG.calc_As (reduction of exactly dae.fx, fy, gx, gy, Tf after find_zero_states), round loop of EIG.sweep (swept parameter written through Model.set; defect F34 fixed) with a native sweep replay.'
           ' Rounds 5-6: damping sweep in the sweep replay.',
    'C10': 'Also: group branch of ExtVar.link_external (idx handed to the group lookup is the indexer, entry by entry; np.array over '
           'an index list is an uninterpreted coercion) with a native replay over mixed int/str indices.'
           " Round 4: group branch of ExtParam.link_external (v, vin, pu_coeff = the group's position-preserving lookup) with a native replay on an interleaved two-model group."
           ' Rounds 5-6: DeviceFinder.find_or_add imported (explicit entries kept), _set_hi_name, bounded device-order permutation, falsy indices in the group lookup.',
    'C11': 'Also: as_dict with an output converter, GroupBase.alter native replay (interleaved models), declaration contracts.'
           ' Round 4: NumParam.restore with pu_coeff declared (an early return for unit coefficients is refuted) and a native replay.'
           ' Rounds 5-6: ModelData.as_df (fresh walk at every call) with a reset / alter / export replay.',
    'C12': 'Also: TDS.do_switch re-checks connectivity once after every dispatched event (native replay with two generator trips).'
           ' Round 4: the matrix side of islanding (System.j_islands in both accumulation modes, System.j_update) imported from C03; native bus-off replay with zero-based indices.'
           ' Rounds 5-6: ConnMan.init (state rebuilt at every setup) with an alter / reset replay; mixed int / str find_idx oracle; automatically named bus.',
    'C13': 'Also: ModelData.as_dict (input-base values, converter applied to those) as the table handed to the writers.'
           ' Round 4: xlsx._write_system / json._dump_system (table refreshed before it is read, filed under the model name; defect F35 fixed); dump-and-reload with parameters altered after loading.'
           ' Rounds 5-6: bounded PSS/E reader against the xlsx form of the same stock cases; MATPOWER export / re-import replay.',
    'C14': 'Also: init_resume never steps across the next pending event or tf; DAE.reset returns to the constructor state (t = -1; '
           'defect F29 fixed); fix_view_arrays frame + native snapshot round trip; bounded reset-then-power-flow reproducibility.'
           ' Round 4: save_ss / load_ss (the whole system with its Jacobian matrices is handed to dill; the loaded object is returned with its DAE fields as read), BaseVar._set_arrays_inplace imported, native snapshot replay away from events.'
           ' Rounds 5-6: snapshot replay compares the series bookkeeping and continues through an event pending in the snapshot.',
    'C15': 'Also: write_npz with the cached ts.txyz modelled as stale until unpack(); TDSData.export_csv header/body for the same '
           'index list; native chunked-output and csv replays.'
           ' Round 4: tail of System.set_output_subidx (xidx / yidx strictly increasing, exactly the collected addresses); bounded accessors get_data / df_* with one and with overlapping Output selections.'
           ' Rounds 5-6: clause of TDS.run (DAE.store only for an accepted step at the time it integrated to); bounded thinning of a run that stops early.',
    'C16': 'Also: KLU and UMFPACK variants of the solve contract (klu.numeric does not reject a stale symbolic factor: defect F30 '
           'fixed), _refresh_symbolic class invariant, native replay over matrix sequences for all three back ends.'
           ' Round 4: both accumulation modes of the island patch (System.j_islands) and PFlow.nr_step imported.'
           ' Rounds 5-6: one-line library wrappers under contract; refresh-request clause of the Newton loop; bounded honest-Newton variant and two systems advanced in turns.',
    'C17': 'Also: criteria.deltadelta (verdict <=> fewer than two angles or spread below the limit) with a bounded native check of the '
           'Python type of the verdict (TDS.run tests "is False").'
           ' Round 4: getattr-with-default modelled so that the exit-code aggregation of andes.main.run stays decidable; native replay with unloadable case files.'
           ' Rounds 5-6: System.setup (is_setup <=> external parameters linked); bounded dangling-reference case through the command-line entry point.',
    'C19': 'Round 9: bounded sweep - every mandatory reference of every model in kundur_full pointed at a missing device must be refused by System.setup. Also: DeviceFinder.find_or_add with a lookup relation updated by every creation (a helper is created at most once per '
           'target) + native replay; bounded exhaustive GroupBase.idx2model (unknown idx => KeyError also with allow_none).'
           ' Rounds 5-6: System.collect_ref link loop; bounded registries built by seeded sequences of additions, targeted generated-name collision.',
    'C20': 'Also: ConfigParser callee contracts (add_section / set / has_section) in _update_config_object (defect F31 fixed); native '
           'replay of Config._set over numeric-looking strings.'
           ' Round 4: andes.utils.paths.get_config_path (result depends on the files present at call time) with a native replay.'
           ' Rounds 5-6: bounded precedence check with every argparse default present.',
}
ROUND7 = {'C01': ' Round 7: PFlow.nr_step evaluation-point clause (the Jacobian solved with is assembled after the model update of the same step, or kept); island sets of enumerated networks with parallel circuits as a bounded premise.', 'C02': ' Round 7: npfunc.safe_div (the helper the generated code calls: quotient where the divisor is non-zero, the default elsewhere).', 'C03': ' Round 7: PFlow.nr_step evaluation-point clause with a wrapped-call replay (PV to PQ conversion enabled).', 'C04': ' Round 7: island sets of enumerated networks with parallel circuits as a bounded premise (shared with C12).', 'C05': ' Round 7: declaration obligations for the hand-over of a static generator (every share service equals p0s * gammap / q0s * gammaq; the powers are fields p / q of the generator named by gen).', 'C06': ' Round 7: stub replay of Fault.apply_fault / clear_fault over every combination of in-fault / enabled / due flags; overlapping faults in the event runs.', 'C07': ' Round 7: Model.set and System._store_tf imported (an inertia changed after initialisation is the one integrated with).', 'C08': ' Round 7: time constants of a case with several devices whose blocks carry a literal time constant.', 'C09': ' Round 7: native replay of the pegged-state write-back of System.fg_to_dae for states that are private copies; a loop a contract speaks about must exist.', 'C10': ' Round 7: Model._one_idx2uid and Model.idx2uid (vector form: out[j] = uid[idx[j]]); bounded registries of integers added in every order, every query form.', 'C12': ' Round 7: System.summary (reports; empty frame); outage patterns once silently and once with the summary printed, two-bus pockets.', 'C14': ' Round 7: Model.refresh_inputs_arg imported; per-call argument lists of a system restored from a snapshot hold the objects of the name table.', 'C17': ' Round 7: andes.io.parse (True iff the format is known, the base case was read and the additional file, if named, was read) with a stub-parser replay.', 'C18': ' Round 7: Model.set imported (every block sharing a time constant gets the new value).', 'C19': ' Round 7: Model.idx2uid vector form; indices that merely look like a registered one are refused.', 'C20': ' Round 7: andes.main._run_mp_proc (every case is started with all keywords of the caller) with a recorder replay of both multi-case front ends.'}
for _k, _v in ROUND7.items():
    ADDED[_k] = ADDED.get(_k, '') + _v

ROUND8 = {'C03': ' Round 8: JacTriplet.clear_ijv with the name tuples of andes.shared bound as the working tree defines them; native append / clear replay.', 'C05': ' Round 8: DAE.resize_arrays / _extend_or_slice (vectors grown for the dynamic models keep what the power flow solved).', 'C06': ' Round 8: nothing new was needed (the head of store_switch_times and the event runs reported the change).', 'C09': ' Round 8: recorder replay of Model.l_update_var (every component with a check_var is updated in every iteration).', 'C12': ' Round 8: PFlow.run clause (with check_conn = 1 the islands are recomputed in this run before PFlow.init) with a native replay.', 'C13': ' Round 8: obligations over the PSS/E DYR import table (status hand-over, destination parameters exist, bound names; defects F37 and F38 fixed) and two bounded native checks of RAW / DYR pairs against the text of the files.', 'C14': ' Round 8: ConnMan.init and DAE.resize_arrays imported; reset-then-power-flow on a case with an out-of-service bus.', 'C15': ' Round 8: stub replay of DAE.store (stored rows are copies: vectors updated in place between calls).', 'C17': ' Round 8: nothing new was needed (ImplicitIter.step: a failed step restores x, y and f).', 'C20': ' Round 8: native replay of Config.check (only a declared choice passes).', 'C01': ' Round 8: PFlow.run islands clause shared with C12.'}
for _k, _v in ROUND8.items():
    ADDED[_k] = ADDED.get(_k, '') + _v

ROUND8B = {'C01': ' PSS/E RAW record contracts (load, shunt, generator, branch) imported with a stub replay of the load record.', 'C02': ' Round 8: bounded in-process regeneration check (a System constructed again after an equation was edited runs the regenerated code).', 'C04': ' Round 8: TDS.init_resume imported (the first step of a resumed run is clamped to the end time and the next event).', 'C07': ' Round 8: nothing new was needed (the small-signal benchmark reported the change).', 'C10': ' Round 8: stub replay of DAE.request_address (both layouts, grid of sizes).', 'C11': ' Round 8: System.reset restores the input values of every model (no selection) with a native replay against the case file.', 'C16': ' Round 8: bounded fresh-process check with different string-hash seeds (bit-identical results).', 'C18': ' Round 8: bounded exhaustive RateLimiter.check_eq stand-in (each side under its own condition).', 'C19': ' Round 8: native replay of IdxParam.add (all spellings of one index are one device).', 'C09': ' Round 8: RateLimiter.check_eq stand-in shared with C18.', 'C14': ' System.reset replay shared with C11.'}
for _k, _v in ROUND8B.items():
    ADDED[_k] = ADDED.get(_k, '') + _v

TECH_SUFFIX = ('; native replay of counter-models and of undecided obligations on the real code; bounded stand-ins are labelled and '
               'not counted')


def main():
    checks = []
    for pid in ALL:
        if pid not in CLAIMED:
            continue
        cat, text, ref, note, tech = CLAIMED[pid]
        checks.append({
            'property_id': pid,
            'quick_cmd': './check %s --tier quick' % pid,
            'thorough_cmd': './check %s --tier thorough' % pid,
            'evidence_file': 'evidence/%s.json' % pid,
            'replay_cmd_template': './check %s --replay {path}' % pid,
            'engine': 'pyvc',
            'level_claimed': {'category': cat, 'text': text + (' ' + ADDED[pid] if pid in ADDED else ''),
                              'design_ref': ref + ', 9'},
            'level_note': note,
            'technique': tech + TECH_SUFFIX,
        })
    man = {
        'version': 1,
        'setup_cmd': './setup.sh',
        'hooks': {
            'guard': 'ANDES_VERIF',
            'enable': 'unused: sidecar contracts only, no hook in /repo',
            'baseline_off_cmd': 'cd /repo && /venv/bin/python -m pytest -ra -q -p no:cacheprovider --timeout=900 --continue-on-collection-errors',
            'source_commits': [],
            'add_only': True,
        },
        'engines': [{'name': 'pyvc', 'path': 'pyvc/', 'serves_properties': sorted(CLAIMED),
                     'kind_free_text': 'own VC generator (Python ast -> z3/cvc5) over the real source of /repo and the '
                                       'code its generator emits; sidecar contracts in contracts/'}],
        'checks': checks,
        'not_applicable': [{'property_id': p, 'reason': NA_REASON[p]} for p in ALL if p not in CLAIMED],
        'notes': 'See DESIGN.md (section 9 = as built). Exit codes: 0 held, 1 violation, 2 undecided (never on the unchanged tree), 3 checker error.',
    }
    with open('MANIFEST.json', 'w') as f:
        json.dump(man, f, indent=1)


if __name__ == '__main__':
    main()
