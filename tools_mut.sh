#!/bin/sh
# usage: tools_mut.sh <file-relative> <python-regex-old> <new> <check-id> ; runs check against /tmp/wt with the mutation
set -e
WT=/tmp/wt
git -C $WT checkout -q -- . && git -C $WT checkout -q --detach $(git -C /repo rev-parse HEAD)
python3 - "$WT/$1" "$2" "$3" <<'PY'
import sys,re
p,old,new=sys.argv[1:4]
s=open(p).read()
n=len(re.findall(old,s))
assert n>=1, 'pattern not found'
s=re.sub(old,new,s,count=1)
open(p,'w').write(s)
PY
cd /verif
VERIF_EVIDENCE_DIR=/tmp/mut_evidence VERIF_REPLAY_DIR=/tmp/mut_replay VERIF_REPO=$WT ./check $4 | grep -v "^  failed" | tail -${5:-4}
git -C $WT checkout -q -- . && git -C $WT checkout -q --detach $(git -C /repo rev-parse HEAD)
