"""Copy the outcome of tools_seedverify.sh (default /tmp/seedverify) into seeded/*/meta.json ('observed_on_repo')."""
import glob
import json
import os
import sys

out = sys.argv[1] if len(sys.argv) > 1 else '/tmp/seedverify'
for d in sorted(glob.glob('seeded/*/')):
    sid = os.path.basename(d.rstrip('/'))
    log = os.path.join(out, sid + '.log')
    if not os.path.exists(log):
        continue
    m = json.load(open(d + 'meta.json'))
    txt = open(log).read()
    viol = [l for l in txt.splitlines() if l.startswith('VIOLATION')]
    obl = [l.strip()[len('failed obligation: '):] for l in txt.splitlines() if l.strip().startswith('failed obligation:')]
    und = [l.split('obligation=')[1][:200] for l in txt.splitlines() if l.startswith('UNDECIDED')]
    m['observed_on_repo'] = {'how': 'git -C /repo apply <patch>; ./check %s; git -C /repo checkout -- .' % m['property'],
                             'exit_code': 1 if viol else None, 'violation_lines': len(viol),
                             'with_replayed_input': len([v for v in viol if 'no-failing-input-found' not in v]),
                             'failed_obligations': obl, 'undecided': und}
    json.dump(m, open(d + 'meta.json', 'w'), indent=1)
print('recorded')
