#!/bin/bash
# Apply every kept seeded change to /repo itself, run the check of its property, undo the change; one summary line per change.
# Outputs go to a scratch directory (default /tmp/seedverify); /verif/evidence is not touched.
# NEVER run anything else against /repo while this runs: the working tree of /repo is modified between apply and checkout.
OUT=${1:-/tmp/seedverify}     # optional 2nd argument: glob over the seed ids (default: all)
cd "$(dirname "$0")"
mkdir -p "$OUT"
for d in seeded/${2:-*}/; do
  sid=$(basename "$d"); pid=${sid%-*}
  grep -q '"status": "obsolete' "$d/meta.json" && { echo "$sid obsolete (skipped)" >> "$OUT/summary.txt"; continue; }
  git -C /repo checkout -q -- .
  git -C /repo apply "$PWD/$d/patch.diff" || { echo "$sid apply-failed" >> "$OUT/summary.txt"; continue; }
  VERIF_EVIDENCE_DIR="$OUT/ev" VERIF_REPLAY_DIR="$OUT/rp_$sid" ./check "$pid" > "$OUT/$sid.log" 2>&1
  rc=$?
  git -C /repo checkout -q -- .
  echo "$sid exit=$rc $(grep -c '^VIOLATION' "$OUT/$sid.log") violations; $(grep -c 'no-failing-input-found' "$OUT/$sid.log") without input" >> "$OUT/summary.txt"
done
git -C /repo status --short | head -3 >> "$OUT/summary.txt"
echo done >> "$OUT/summary.txt"
