"""
Checker self-test: every mutation of selftest/mutations.json is applied to a scratch copy of /repo (outside /repo and /verif, removed
afterwards) and the named check is run on it in a subprocess; the mutation counts as detected when that run exits 1.
Usage: tools_selftest.py [Cxx ...]      (no argument: all properties).  Exit 0 iff every mutation was detected.
"""
import json
import os
import re
import shutil
import subprocess
import sys
import tempfile
from concurrent.futures import ThreadPoolExecutor

ROOT = os.path.dirname(os.path.abspath(__file__))
REPO = os.environ.get('VERIF_REPO', '/repo')


def run_one(m):
    tmp = tempfile.mkdtemp(prefix='verif_selftest_')
    try:
        tree = os.path.join(tmp, 'repo')
        subprocess.run(['rsync', '-a', '--exclude', '.git', '--exclude', '__pycache__', REPO + '/', tree + '/'], check=True)
        if m['kind'] == 'revert':
            r = subprocess.run(['patch', '-R', '-p1', '-s', '-d', tree, '-i', os.path.join(ROOT, 'selftest', m['patch'])],
                               capture_output=True, text=True)
            if r.returncode != 0:
                return m, 'not-applicable', 'reverse patch does not apply: %s' % (r.stdout + r.stderr)[-200:]
        else:
            p = os.path.join(tree, m['file'])
            s = open(p).read()
            if not re.search(m['old'], s):
                return m, 'not-applicable', 'pattern not found'
            open(p, 'w').write(re.sub(m['old'], lambda _: m['new'].encode().decode('unicode_escape') if '\\n' in m['new'] else m['new'], s, count=1))
        env = dict(os.environ, VERIF_REPO=tree, VERIF_EVIDENCE_DIR=os.path.join(tmp, 'ev'), VERIF_REPLAY_DIR=os.path.join(tmp, 'rp'),
                   HOME=os.path.join(tmp, 'home'), VERIF_SELFTEST='1')
        os.makedirs(env['HOME'], exist_ok=True)
        r = subprocess.run([os.path.join(ROOT, 'check'), m['property'], '--tier', 'quick'], env=env, capture_output=True, text=True,
                           timeout=3600)
        obl = [l.strip() for l in r.stdout.splitlines() if l.strip().startswith('failed obligation:')][:3]
        return m, ('detected' if r.returncode == 1 else 'missed(exit %d)' % r.returncode), '; '.join(obl) or r.stdout[-300:]
    finally:
        shutil.rmtree(tmp, ignore_errors=True)


def run(pids=None, workers=8):
    muts = json.load(open(os.path.join(ROOT, 'selftest', 'mutations.json')))['mutations']
    if pids:
        muts = [m for m in muts if m['property'] in pids]
    with ThreadPoolExecutor(max_workers=workers) as ex:
        res = list(ex.map(run_one, muts))
    return [{'id': m['id'], 'property': m['property'], 'result': r, 'detail': d[:400]} for m, r, d in res]


if __name__ == '__main__':
    out = run(sys.argv[1:] or None)
    for o in out:
        print('%-34s %-4s %-16s %s' % (o['id'], o['property'], o['result'], o['detail'][:160]))
    bad = [o for o in out if o['result'] != 'detected']
    print('%d mutations, %d detected' % (len(out), len(out) - len(bad)))
    sys.exit(0 if not bad else 1)
