import json, sys, jsonschema, glob
es=json.load(open('/root/.vp/EVIDENCE.schema.json')); ms=json.load(open('/root/.vp/MANIFEST.schema.json'))
import os
if os.path.exists('MANIFEST.json'):
    jsonschema.validate(json.load(open('MANIFEST.json')), ms); print('MANIFEST valid')
for f in sorted(glob.glob('evidence/*.json')):
    ev=json.load(open(f)); jsonschema.validate(ev, es); print(f,'valid',ev['level'],ev['coverage'].get('obligations'),ev['coverage'].get('discharged'),ev['wall_s'])
